(* C10 — the directory cache is transparent and never older than its lifetime.
   Property theorems only.  The machine is Model/Cache.v (loadcache / savecache of
   pygopherd/handlers/dir.py); every theorem quantifies over ALL finite histories
   `ops` (directory mutations, clock advances, listings through any protocols,
   requests that never reach getdirlist() (HTTP HEAD, Gopher+ !),
   harmless damage) and over both variants of the code (`rep` = pinned / repaired
   loadcache).  Replies are stamped (time, directory content at the request, reply);
   `out` lists them newest first.  D, L, P, gen, enc, decode, life are arbitrary;
   the only assumption is that unpickling what was pickled gives it back. *)
From Coq Require Import ZArith List Bool.
From PG Require Import Lib.Str Model.Cache Proofs.C10Facts Gen.CacheSite Proofs.C10Site.
Import ListNotations.
Local Open Scope Z_scope.

(* T: where the cache file lives and when it is believed, as the source says it now (Gen/CacheSite.v, regenerated
   from handlers/dir.py on every run): options read = {cachefile, cachetime, ignorepatt}; one file per directory,
   `selector + "/" + cachefile` (injective in the selector; trivial helper methods inlined); the way to a hit in
   loadcache() is: iswritable guard, stat (OSError = miss), `time.time() - statval[ST_MTIME] < cachetime`, open + load
   (any exception = miss); the way to the write in savecache() is: not fromcache, iswritable guard, open 'wb' + dump
   (IOError ignored) -- compared as sequences of guards and file operations, not statement shapes. *)
Theorem C10_cache_site_is_modelled : cache_site_check = true.
Proof. exact cache_site_as_modelled. Qed.
Print Assumptions C10_cache_site_is_modelled.

(* the invariant, for every history: the cached list is gen of the directory as it
   was at the file's birth time, which is not in the future, and was returned by
   the request that wrote it *)
Theorem C10_invariant :
  forall (D L P : Type) (gen : D -> L) enc decode life,
    (forall l, decode (enc l) = Some l) ->
  forall rep d0 t0 (ops : list (op D P)) sf out,
    Forall (op_ok enc decode) ops -> run gen enc decode life rep (init d0 t0) ops = (sf, out) ->
  forall b g l, file sf = Some (b, g) -> decode g = Some l ->
    b <= now sf /\ (exists d, alive (hist sf) (now sf) b d /\ l = gen d) /\
    (exists p d, In (b, d, Served p l false) out).
Proof. exact invariant_all. Qed.
Print Assumptions C10_invariant.

Theorem C10_transparent :
  forall (D L P : Type) (gen : D -> L) enc decode life,
    (forall l, decode (enc l) = Some l) ->
  forall rep d0 t0 (ops : list (op D P)) sf out,
    Forall (op_ok enc decode) ops -> run gen enc decode life rep (init d0 t0) ops = (sf, out) ->
  forall post pre t d q l, out = post ++ (t, d, Served q l true) :: pre ->
    exists p d' t', In (t', d', Served p l false) pre /\ l = gen d' /\ t' <= t /\ t - t' < ms life.
Proof. exact transparent_all. Qed.
Print Assumptions C10_transparent.

Theorem C10_fresh :
  forall (D L P : Type) (gen : D -> L) enc decode life,
    (forall l, decode (enc l) = Some l) ->
  forall rep d0 t0 (ops : list (op D P)) sf out,
    Forall (op_ok enc decode) ops -> run gen enc decode life rep (init d0 t0) ops = (sf, out) ->
  forall t d p l h, In (t, d, Served p l h) out ->
    exists tau d', alive (hist sf) (now sf) tau d' /\ l = gen d' /\ tau <= t /\ (t - tau < ms life \/ tau = t).
Proof. exact fresh_all. Qed.
Print Assumptions C10_fresh.

(* serving from the cache changes nothing: neither content nor birth time *)
Theorem C10_no_refresh :
  forall (D L P : Type) (gen : D -> L) enc decode life rep (s : state D) (p : P) l,
    loadcache decode life s = Hit l ->
    step gen enc decode life rep s (List p) = (s, Some (Served p l true)).
Proof. exact hit_no_refresh. Qed.
Print Assumptions C10_no_refresh.

(* the freshness test is the code's: whole seconds of the clock against the integer mtime *)
Theorem C10_fresh_test :
  forall life nw b, fresh life nw b = true <-> nw / 1000 - b / 1000 < life.
Proof. exact fresh_seconds. Qed.
Print Assumptions C10_fresh_test.

Theorem C10_zero :
  forall (D L P : Type) (gen : D -> L) enc decode life,
    (forall l, decode (enc l) = Some l) ->
  forall rep d0 t0 (ops : list (op D P)) sf out,
    life <= 0 -> Forall (op_ok enc decode) ops -> run gen enc decode life rep (init d0 t0) ops = (sf, out) ->
  forall t d p l h, In (t, d, Served p l h) out -> h = false /\ l = gen d.
Proof. exact zero_all. Qed.
Print Assumptions C10_zero.

(* the pinned code answers every request of every damage-free history *)
Theorem C10_pinned_always_answers :
  forall (D L P : Type) (gen : D -> L) enc decode life,
    (forall l, decode (enc l) = Some l) ->
  forall d0 t0 (ops : list (op D P)), Forall (@no_damage D P) ops ->
  forall e, In e (snd (run gen enc decode life false (init d0 t0) ops)) -> ~ is_crash D L P e.
Proof. exact pinned_always_answers. Qed.
Print Assumptions C10_pinned_always_answers.

(* non-vacuity: lifetime 2 s; a miss, a mutation, a hit that still shows the old
   content 1 s later, expiry, a miss that shows the new content *)
Example C10_example :
  let gen := fun d : list N => d in
  let ops := [List 0%N; Tick 1000; Mutate (fun d => 7%N :: d); List 1%N; Tick 1500; List 2%N] in
  map (fun e => snd e) (snd (run gen toy_enc toy_decode 2 false (init [1%N] 5000) ops)) =
    [Served 2%N [7%N; 1%N] false; Served 1%N [1%N] true; Served 0%N [1%N] false]
  /\ Forall (op_ok toy_enc toy_decode) ops.
Proof. split; [vm_compute; reflexivity | repeat constructor; simpl; discriminate]. Qed.
