(* C01 — nothing outside the document root is read, listed, run or revealed.
   Property theorems only; each is closed by `exact <lemma>` and followed by
   Print Assumptions.  The pattern list `base_patterns` comes from Gen/Secure.v,
   regenerated from pygopherd/handlers/base.py on every run. *)
From Coq Require Import String.
From PG Require Import Lib.Str Lib.StrFacts Gen.Secure Model.Selector Proofs.SelectorFacts Proofs.C01Facts.
Local Open Scope N_scope.

(* The climbing substrings named by the property text (./ .. // .\ \\ NUL) are C01Facts.climbers *)


Theorem C01_climbers_rejected :
  forall s p, In p climbers -> contains p s = true -> is_secure s = false.
Proof. exact C01Facts.climbers_rejected. Qed.
Print Assumptions C01_climbers_rejected.

Theorem C01_filter_substring_closed :
  forall a s b, is_secure (a ++ s ++ b) = true -> is_secure s = true.
Proof. exact C01Facts.secure_substring_closed. Qed.
Print Assumptions C01_filter_substring_closed.

(* every selector the filter lets through resolves, from ANY root spelling
   (hence any working directory: take root := cwd ++ "/" ++ root), to a path
   inside the root, and carries no NUL. *)
Theorem C01_secure_confined :
  forall root s p, is_secure s = true -> starts_with_slash s = true ->
    getfspath root s = Some p -> inside root p = true /\ has_nul s = false.
Proof. exact C01Facts.secure_confined. Qed.
Print Assumptions C01_secure_confined.

(* protocols hand handlers only selectors that start with a slash *)
Theorem C01_normalized_starts_slash :
  forall s, starts_with_slash (slashnormalize s) = true.
Proof. exact SelectorFacts.slashnormalize_starts_slash. Qed.
Print Assumptions C01_normalized_starts_slash.

(* paths derived by handlers from a secure selector stay inside the root *)
Theorem C01_derived_confined :
  forall root s suffix p, is_secure s = true -> starts_with_slash s = true ->
    In suffix derived_suffixes ->
    getfspath root (s ++ suffix) = Some p -> inside root p = true.
Proof. exact C01Facts.derived_confined. Qed.
Print Assumptions C01_derived_confined.

(* a child name returned by the OS (never "..", never containing "/") *)
Theorem C01_child_confined :
  forall root base name p, ~ In DOTDOT (components base) -> (base = [] \/ starts_with_slash base = true) ->
    name <> DOTDOT -> mem_N SLASH name = false ->
    getfspath root (base ++ SLASH :: name) = Some p -> inside root p = true.
Proof. exact C01Facts.child_confined. Qed.
Print Assumptions C01_child_confined.

(* virtual selectors (real|args, real?args): the part that reaches the file system *)
Theorem C01_virtual_confined :
  forall root s p, is_secure s = true -> starts_with_slash s = true -> fst (virtual_split s) <> [] ->
    getfspath root (fst (virtual_split s)) = Some p -> inside root p = true.
Proof. exact C01Facts.virtual_confined. Qed.
Print Assumptions C01_virtual_confined.

(* the type rewriter (/1/path -> /path) re-enters the handler chain with a confined selector *)
Theorem C01_rewriter_confined :
  forall root s p, is_secure s = true -> rewriter_accepts s = true ->
    getfspath root (rewriter_target s) = Some p -> inside root p = true.
Proof. exact C01Facts.rewriter_confined. Qed.
Print Assumptions C01_rewriter_confined.

(* non-vacuity: a concrete secure selector and root *)
Example C01_example :
  is_secure (lit "/docs/a.txt"%string) = true /\ starts_with_slash (lit "/docs/a.txt"%string) = true /\
  getfspath (lit "/var/gopher"%string) (lit "/docs/a.txt"%string) = Some (lit "/var/gopher/docs/a.txt"%string) /\
  is_secure (lit "/docs/../../etc/passwd"%string) = false.
Proof. vm_compute. repeat split; reflexivity. Qed.
