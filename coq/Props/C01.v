(* C01 — nothing outside the document root is read, listed, run or revealed.
   Property theorems only; each is closed by `exact <lemma>` and followed by
   Print Assumptions.  The pattern list `base_patterns` comes from Gen/Secure.v,
   regenerated from pygopherd/handlers/base.py on every run. *)
From Coq Require Import String.
From PG Require Import Lib.Str Lib.StrFacts Gen.Secure Model.Selector Proofs.SelectorFacts Proofs.C01Facts Model.Handlers Proofs.HandlersFacts.
Local Open Scope N_scope.

(* The climbing substrings named by the property text (./ .. // .\ \\ NUL) are C01Facts.climbers *)


Theorem C01_climbers_rejected :
  forall s p, In p climbers -> contains p s = true -> is_secure s = false.
Proof. exact C01Facts.climbers_rejected. Qed.
Print Assumptions C01_climbers_rejected.

Theorem C01_filter_substring_closed :
  forall a s b, is_secure (a ++ s ++ b) = true -> is_secure s = true.
Proof. exact C01Facts.secure_substring_closed. Qed.
Print Assumptions C01_filter_substring_closed.

(* every selector the filter lets through resolves, from ANY root spelling
   (hence any working directory: take root := cwd ++ "/" ++ root), to a path
   inside the root, and carries no NUL. *)
Theorem C01_secure_confined :
  forall root s p, is_secure s = true -> starts_with_slash s = true ->
    getfspath root s = Some p -> inside root p = true /\ has_nul s = false.
Proof. exact C01Facts.secure_confined. Qed.
Print Assumptions C01_secure_confined.

(* protocols hand handlers only selectors that start with a slash *)
Theorem C01_normalized_starts_slash :
  forall s, starts_with_slash (slashnormalize s) = true.
Proof. exact SelectorFacts.slashnormalize_starts_slash. Qed.
Print Assumptions C01_normalized_starts_slash.

(* paths derived by handlers from a secure selector stay inside the root *)
Theorem C01_derived_confined :
  forall root s suffix p, is_secure s = true -> starts_with_slash s = true ->
    In suffix derived_suffixes ->
    getfspath root (s ++ suffix) = Some p -> inside root p = true.
Proof. exact C01Facts.derived_confined. Qed.
Print Assumptions C01_derived_confined.

(* a child name returned by the OS (never "..", never containing "/") *)
Theorem C01_child_confined :
  forall root base name p, ~ In DOTDOT (components base) -> (base = [] \/ starts_with_slash base = true) ->
    name <> DOTDOT -> mem_N SLASH name = false ->
    getfspath root (base ++ SLASH :: name) = Some p -> inside root p = true.
Proof. exact C01Facts.child_confined. Qed.
Print Assumptions C01_child_confined.

(* virtual selectors (real|args, real?args): the part that reaches the file system *)
Theorem C01_virtual_confined :
  forall root s p, is_secure s = true -> starts_with_slash s = true -> fst (virtual_split s) <> [] ->
    getfspath root (fst (virtual_split s)) = Some p -> inside root p = true.
Proof. exact C01Facts.virtual_confined. Qed.
Print Assumptions C01_virtual_confined.

(* the type rewriter (/1/path -> /path) re-enters the handler chain with a confined selector *)
Theorem C01_rewriter_confined :
  forall root s p, is_secure s = true -> rewriter_accepts s = true ->
    getfspath root (rewriter_target s) = Some p -> inside root p = true.
Proof. exact C01Facts.rewriter_confined. Qed.
Print Assumptions C01_rewriter_confined.

(* ---- the handler chain (Model/Handlers.v: HandlerMultiplexer.getHandler + every handler's test) ---- *)

(* a selector that passes neither filter reaches no handler: for EVERY tree, handler list,
   MIME table, ZIP setting and PYG content the answer is not-found *)
Theorem C01_insecure_notfound :
  forall root mime_html compressed_ok zip_enabled zip_pattern pyg_accepts all sel,
    is_secure sel = false -> url_secure sel = false ->
    get_handler root mime_html compressed_ok zip_enabled zip_pattern pyg_accepts all sel = NotFound.
Proof. exact HandlersFacts.insecure_notfound. Qed.
Print Assumptions C01_insecure_notfound.

(* everything the chain itself opens or executes while choosing lies inside the root, and
   for a secure selector so does everything it stats *)
Theorem C01_chain_confined :
  forall rootpath hs sel c p fsp,
    starts_with_slash sel = true ->
    In (c, p) (chain_accesses hs sel) -> (c <> AStat \/ is_secure sel = true) ->
    getfspath rootpath p = Some fsp -> inside rootpath fsp = true.
Proof.
  exact (HandlersFacts.chain_accesses_confined (fun _ => true) (fun _ => true) (fun _ => true) (fun _ => true)).
Qed.
Print Assumptions C01_chain_confined.

(* the handler finally chosen (other than the URL redirector, which never touches the file
   system) works on a selector that passed the filter and starts with a slash *)
Theorem C01_chosen_secure :
  forall root mime_html compressed_ok zip_enabled zip_pattern pyg_accepts all sel h s,
    starts_with_slash sel = true ->
    get_handler root mime_html compressed_ok zip_enabled zip_pattern pyg_accepts all sel = Chosen h s ->
    h <> HUrl -> is_secure s = true /\ starts_with_slash s = true.
Proof.
  intros root mh co ze zp pa all sel h s L H N. split.
  - exact (HandlersFacts.chosen_secure root mh co ze zp pa all sel h s H N).
  - exact (HandlersFacts.chosen_starts_slash root mh co ze zp pa all sel h s L H).
Qed.
Print Assumptions C01_chosen_secure.

Theorem C01_filter_overrides_as_modelled :
  list_eqb str_eqb secure_overriders
    (map lit ["base.BaseHandler.isrequestforme"; "base.BaseHandler.isrequestsecure";
              "url.HTMLURLHandler.isrequestsecure"]%string) = true.
Proof. exact C01Facts.overriders_as_modelled. Qed.
Print Assumptions C01_filter_overrides_as_modelled.

(* non-vacuity: a concrete secure selector and root *)
Example C01_example :
  is_secure (lit "/docs/a.txt"%string) = true /\ starts_with_slash (lit "/docs/a.txt"%string) = true /\
  getfspath (lit "/var/gopher"%string) (lit "/docs/a.txt"%string) = Some (lit "/var/gopher/docs/a.txt"%string) /\
  is_secure (lit "/docs/../../etc/passwd"%string) = false.
Proof. vm_compute. repeat split; reflexivity. Qed.
