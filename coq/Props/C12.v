(* C12 — one unservable entry never takes down its directory.
   Property theorems only.  The fault assignment is the world itself: `faulty w n`
   holds when getHandler finds no handler for child n (no stat result: dangling
   link, entry gone, EACCES; special file; name failing the security filter,
   whose pattern list is regenerated from the source in Gen/Secure.v). *)
From Coq Require Import ZArith Permutation String.
From PG Require Import Lib.Str Lib.Cmp Lib.Sort Lib.Regex Gen.Ignore
  Model.Selector Model.DirEntry Model.UMN Model.Dir Proofs.DirFacts Proofs.C07Facts Proofs.C12Facts.
Local Open Scope N_scope.

(* repaired loop: for ALL names and ALL fault assignments the result is Ok, the
   survivors are exactly the non-faulty names in their original order, each
   with the entry its handler built *)
Theorem C12_others_kept :
  forall fx w names, fx_skip_child fx = true -> fx_skip_unreadable fx = true ->
    exists l, prep_entries (skip_of fx) (dir_child w) names = Ok l /\
              map fst l = filter (fun n => negb (faulty w n)) names /\
              (forall n ci, In n names -> child_entry w n = Ok ci -> In (n, ci_entry ci) l).
Proof. exact C12Facts.prep_entries_repaired_ok. Qed.
Print Assumptions C12_others_kept.

Theorem C12_order_preserved :
  forall skip w names l, prep_entries skip (dir_child w) names = Ok l -> l = kept (dir_child w) names.
Proof. exact C12Facts.prep_entries_order_preserved. Qed.
Print Assumptions C12_order_preserved.

(* the whole DirHandler listing *)
Theorem C12_listing_others_kept :
  forall fx alts w enum, fx_skip_child fx = true -> fx_skip_unreadable fx = true ->
    exists l, dir_listing fx alts w enum = Ok l /\
      map fst l = filter (fun n => negb (faulty w n)) (dir_files fx alts w enum) /\
      (forall n ci, In n enum -> visible_dir alts w n = true -> child_entry w n = Ok ci ->
                    In (n, ci_entry ci) l).
Proof. exact C12Facts.dir_others_kept. Qed.
Print Assumptions C12_listing_others_kept.

(* the child loop of the UMN handler, when no .cap file is itself malformed *)
Theorem C12_umn_children_kept :
  forall fx plf mode w names, fx_skip_child fx = true -> fx_skip_unreadable fx = true ->
    (forall n ci e, In n names -> child_entry w n = Ok ci ->
                    umn_append plf mode (w_cap w n) n ci <> Raise e) ->
    exists l, prep_entries (skip_of fx) (umn_child plf mode w) names = Ok l /\
      forall n ci e, In n names -> child_entry w n = Ok ci ->
                     umn_append plf mode (w_cap w n) n ci = Ok (Some e) -> In (n, e) l.
Proof. exact C12Facts.umn_children_others_kept. Qed.
Print Assumptions C12_umn_children_kept.

(* a child fails with FileNotFound (no handler takes it) or OSError (its handler cannot read it), nothing else *)
Theorem C12_child_failure_is_notfound :
  forall w n e, child_entry w n = Raise e -> e = FileNotFound \/ e = IOErr.
Proof. exact DirFacts.child_entry_raises_notfound. Qed.
Print Assumptions C12_child_failure_is_notfound.

(* pinned loop (D7): a dangling entry aborts the listing of both handlers
   although another entry is perfectly servable *)
Theorem C12_refuted :
  exists w enum n, In n enum /\ faulty w n = false /\
    dir_listing pinned shipped_ignore w enum = Raise FileNotFound /\
    umn_listing pinned shipped_ignore StripNone w enum = Raise FileNotFound.
Proof. exact C12Facts.pinned_refuted. Qed.
Print Assumptions C12_refuted.

Theorem C12_refuted_filtered_name :
  exists w enum, dir_listing pinned shipped_ignore w enum = Raise FileNotFound /\
                 exists l, dir_listing repaired shipped_ignore w enum = Ok l /\
                           map fst l = [lit "a.txt"%string].
Proof. exact C12Facts.pinned_refuted_dotdot. Qed.
Print Assumptions C12_refuted_filtered_name.

(* D27 (before the repair): the handler chain takes a child — stat says regular file — but building its
   entry fails with OSError (the HTML title of an unreadable file, a *.gophermap gone since the stat):
   the whole listing is answered with that error *)
Theorem C12_unreadable_refuted :
  dir_listing head_before_d27 shipped_ignore d27_world d27_enum = Raise IOErr /\
  umn_listing head_before_d27 shipped_ignore StripNone d27_world d27_enum = Raise IOErr /\
  exists l, dir_listing repaired shipped_ignore d27_world d27_enum = Ok l /\
            map fst l = [lit "a.txt"%string; lit "z.txt"%string].
Proof. exact C12Facts.unreadable_refuted. Qed.
Print Assumptions C12_unreadable_refuted.

(* non-vacuity *)
Example C12_example :
  exists l, dir_listing repaired shipped_ignore d7_world d7_enum = Ok l /\
            map fst l = [lit "a.txt"%string; lit "z.txt"%string].
Proof. exact C12Facts.d7_repaired. Qed.
