(* C12 — one unservable entry never takes down its directory.
   Property theorems only.  The fault assignment is the world itself: `faulty w n`
   holds when getHandler finds no handler for child n (no stat result: dangling
   link, entry gone, EACCES; special file; name failing the security filter,
   whose pattern list is regenerated from the source in Gen/Secure.v). *)
From Coq Require Import ZArith Permutation String.
From PG Require Import Lib.Str Lib.Cmp Lib.Sort Lib.Regex Gen.Ignore
  Model.Selector Model.DirEntry Model.UMN Model.Dir Proofs.DirFacts Proofs.C07Facts Proofs.C12Facts.
Local Open Scope N_scope.

(* repaired loop: for ALL names and ALL fault assignments the result is Ok, the
   survivors are exactly the non-faulty names in their original order, each
   with the entry its handler built *)
Theorem C12_others_kept :
  forall w names,
    exists l, prep_entries true (dir_child w) names = Ok l /\
              map fst l = filter (fun n => negb (faulty w n)) names /\
              (forall n ci, In n names -> child_entry w n = Ok ci -> In (n, ci_entry ci) l).
Proof. exact C12Facts.prep_entries_repaired_ok. Qed.
Print Assumptions C12_others_kept.

Theorem C12_order_preserved :
  forall w names l, prep_entries true (dir_child w) names = Ok l -> l = kept (dir_child w) names.
Proof. exact C12Facts.prep_entries_order_preserved. Qed.
Print Assumptions C12_order_preserved.

(* the whole DirHandler listing *)
Theorem C12_listing_others_kept :
  forall fx alts w enum, fx_skip_child fx = true ->
    exists l, dir_listing fx alts w enum = Ok l /\
      map fst l = filter (fun n => negb (faulty w n)) (dir_files fx alts w enum) /\
      (forall n ci, In n enum -> visible_dir alts w n = true -> child_entry w n = Ok ci ->
                    In (n, ci_entry ci) l).
Proof. exact C12Facts.dir_others_kept. Qed.
Print Assumptions C12_listing_others_kept.

(* the child loop of the UMN handler, when no .cap file is itself malformed *)
Theorem C12_umn_children_kept :
  forall plf mode w names,
    (forall n ci e, In n names -> child_entry w n = Ok ci ->
                    umn_append plf mode (w_cap w n) n ci <> Raise e) ->
    exists l, prep_entries true (umn_child plf mode w) names = Ok l /\
      forall n ci e, In n names -> child_entry w n = Ok ci ->
                     umn_append plf mode (w_cap w n) n ci = Ok (Some e) -> In (n, e) l.
Proof. exact C12Facts.umn_children_others_kept. Qed.
Print Assumptions C12_umn_children_kept.

(* the only way a child can fail is FileNotFound *)
Theorem C12_child_failure_is_notfound :
  forall w n e, child_entry w n = Raise e -> e = FileNotFound.
Proof. exact DirFacts.child_entry_raises_notfound. Qed.
Print Assumptions C12_child_failure_is_notfound.

(* pinned loop (D7): a dangling entry aborts the listing of both handlers
   although another entry is perfectly servable *)
Theorem C12_refuted :
  exists w enum n, In n enum /\ faulty w n = false /\
    dir_listing pinned shipped_ignore w enum = Raise FileNotFound /\
    umn_listing pinned shipped_ignore StripNone w enum = Raise FileNotFound.
Proof. exact C12Facts.pinned_refuted. Qed.
Print Assumptions C12_refuted.

Theorem C12_refuted_filtered_name :
  exists w enum, dir_listing pinned shipped_ignore w enum = Raise FileNotFound /\
                 exists l, dir_listing repaired shipped_ignore w enum = Ok l /\
                           map fst l = [lit "a.txt"%string].
Proof. exact C12Facts.pinned_refuted_dotdot. Qed.
Print Assumptions C12_refuted_filtered_name.

(* non-vacuity *)
Example C12_example :
  exists l, dir_listing repaired shipped_ignore d7_world d7_enum = Ok l /\
            map fst l = [lit "a.txt"%string; lit "z.txt"%string].
Proof. exact C12Facts.d7_repaired. Qed.
