(* C03 — every request is answered with one well-formed response: the protocol layer.
   Property theorems only; each is closed by `exact <lemma>` and followed by Print
   Assumptions.

   Scope (be exact about it).  Model/Respond.v gives the bytes each protocol class's
   handle() writes as a function of what the handler chain did: FileNotFound (message =
   "'<selector>' does not exist (<comments>)"), IOError, a document, a directory; plus the
   replies written without a handler (HTTP icons, Gemini 59 / 10 / 30, Spartan "too
   large").  Model/Wellformed.v are readers written from the protocol documents.  The
   theorems say: for EVERY outcome and ANY message bytes — CR, LF, TAB, NUL, markup,
   bytes that are not UTF-8; the message quotes the attacker's selector — the reply is
   accepted by the reader of the protocol that produced it, error replies of Gemini and
   Spartan are exactly one CRLF-terminated line, and the pre-92fb050 code is refuted.
   Conditions concern only what the server itself chooses (MIME type, formatted date,
   admin string: single-line text that str.encode() accepts; the Gopher+ size attribute
   equals the number of bytes sent — C04's subject).
   NOT proved here: that the handler chain always ends in one of these outcomes (no other
   exception, bounded time) and that the reply does not depend on earlier requests — that
   is what the oracle search of harness/c03.py establishes on generated requests and
   histories.  Plain Gopher has no framing (any bytes are a document), so `wf PGopher`
   accepts everything; the strict form of its error line is C03_gopher_error_line, which
   needs a message free of TAB, CR and LF (refuted otherwise).  The tie to /repo is
   Corr/K03.v. *)
From Coq Require Import String.
From PG Require Import Lib.Str Lib.Bytes Lib.Utf8 Lib.Crlf Model.Copy Model.ProtoId Model.Request Model.Respond
  Model.Wellformed Proofs.C03Facts.
Local Open Scope N_scope.

Theorem C03_respond_wellformed :
  forall e p o, env_ok e = true -> outcome_ok e p o = true ->
    exists r, respond e p o = Some r /\ wf p r = true.
Proof. exact C03Facts.respond_wellformed. Qed.
Print Assumptions C03_respond_wellformed.

(* the not-found reply for ANY message bytes, every protocol *)
Theorem C03_error_any_message :
  forall e p b, env_ok e = true -> is_bytes b = true ->
    exists r, respond e p (ONotFound (decode_se b)) = Some r /\ wf p r = true.
Proof. exact C03Facts.error_any_message. Qed.
Print Assumptions C03_error_any_message.

Theorem C03_ioerror_any_message :
  forall e p se b, env_ok e = true -> is_bytes b = true ->
    match se with Some s => encodable s | None => true end = true ->
    exists r, respond e p (OIOError se (decode_se b)) = Some r /\ wf p r = true.
Proof. exact C03Facts.ioerror_any_message. Qed.
Print Assumptions C03_ioerror_any_message.

(* documents of any content; the WAP text conversion never fails *)
Theorem C03_doc_wellformed :
  forall e p m size body, env_ok e = true -> is_bytes body = true ->
    line_ok (http_adjust m) = true -> line_ok (wap_adjust m) = true ->
    match size with Some n => n =? N.of_nat (List.length body) | None => true end = true ->
    exists r, respond e p (ODoc m size body) = Some r /\ wf p r = true.
Proof. exact C03Facts.doc_wellformed. Qed.
Print Assumptions C03_doc_wellformed.

(* Gemini and Spartan need no condition at all: write_status cleans every meta string *)
Theorem C03_gemini_wellformed :
  forall e o, exists r, respond e PGemini o = Some r /\ wf PGemini r = true.
Proof. exact C03Facts.gemini_wf. Qed.
Print Assumptions C03_gemini_wellformed.

Theorem C03_spartan_wellformed :
  forall e o, exists r, respond e PSpartan o = Some r /\ wf PSpartan r = true.
Proof. exact C03Facts.spartan_wf. Qed.
Print Assumptions C03_spartan_wellformed.

(* error statuses carry no body: the whole reply is one CRLF-terminated line *)
Theorem C03_error_no_body :
  forall e p o, (p = PGemini \/ p = PSpartan) -> is_error o = true ->
    exists line, respond e p o = Some (line ++ crlf) /\ mem_N 13 line = false /\ mem_N 10 line = false /\
                 split_crlf (line ++ crlf) = ([line], []).
Proof. exact C03Facts.status_error_one_line. Qed.
Print Assumptions C03_error_no_body.

(* exactly one status line: a client that splits the error reply at CRLF sees one line *)
Theorem C03_one_status_line :
  forall e p o, (p = PGemini \/ p = PSpartan) -> is_error o = true ->
    exists r, respond e p o = Some r /\ crlf_lines r = 1%nat.
Proof. exact C03Facts.one_status_line. Qed.
Print Assumptions C03_one_status_line.

(* the replies written without asking a handler; the 30 target is attacker-chosen *)
Theorem C03_direct_wellformed :
  forall e icon_data r, match r with ToHandler _ _ | Crash => False | _ => True end ->
    exists b, respond_direct e icon_data r = Some b /\
              wf (match r with Icon _ => PHttp | SpartanTooLarge => PSpartan | _ => PGemini end) b = true.
Proof. exact C03Facts.direct_wellformed. Qed.
Print Assumptions C03_direct_wellformed.

(* plain Gopher: the strict type-3 line *)
Theorem C03_gopher_error_line :
  forall msg, gopher_msg_ok msg = true ->
    exists r, gopher_error msg = Some r /\ wf_gopher_error r = true.
Proof. exact C03Facts.gopher_error_line. Qed.
Print Assumptions C03_gopher_error_line.

Theorem C03_gopher_error_line_refuted :
  exists msg, encodable msg = true /\
    wf_gopher_error (match gopher_error msg with Some r => r | None => [] end) = false.
Proof. exact C03Facts.gopher_error_line_refuted. Qed.
Print Assumptions C03_gopher_error_line_refuted.

(* the defect repaired by /repo 92fb050: the pinned code copies CR LF into the status line *)
Theorem C03_crlf_refuted :
  exists msg, wf PGemini (match respond_pinned (mk_env [] true None None) PGemini (ONotFound msg)
                          with Some r => r | None => [] end) = false.
Proof. exact C03Facts.crlf_refuted. Qed.
Print Assumptions C03_crlf_refuted.

Theorem C03_crlf_refuted_spartan :
  exists msg, wf PSpartan (match respond_pinned (mk_env [] true None None) PSpartan (ONotFound msg)
                           with Some r => r | None => [] end) = false.
Proof. exact C03Facts.crlf_refuted_spartan. Qed.
Print Assumptions C03_crlf_refuted_spartan.

(* non-vacuity: the conditions hold for the shipped configuration and a hostile message *)
Example C03_example :
  let e := mk_env (lit "Unconfigured Pygopherd Admin <pygopherd@nowhere.nowhere>"%string) true
                  (Some (lit "Fri, 14 Dec 2001 21:19:47 GMT"%string)) None in
  let msg := notfound_msg (lit "/a"%string ++ [13; 10; 9; 0; 56575] ++ lit "<b>"%string) (lit "no handler found"%string) in
  env_ok e = true /\ outcome_ok e PHttp (ONotFound msg) = true /\
  outcome_ok e PWap (ODoc None (Some 3) [104; 105; 10]) = true /\
  outcome_ok e PGopherPlus (ODoc (Some (lit "text/plain"%string)) (Some 3) [104; 105; 10]) = true /\
  line_ok (http_adjust None) = true /\ gopher_msg_ok (lit "'/x' does not exist"%string) = true /\
  respond e PGemini (ONotFound msg) =
    Some (lit "51 '/a  "%string ++ [9; 0] ++ lit "\udcff<b>' does not exist (no handler found)"%string ++ crlf).
Proof. vm_compute. repeat split; reflexivity. Qed.
