(* C15 — Gopher+ item information is faithful.
   Property theorems only.  Model: Model/GopherPlus.v (blocks, "!", "$", "+" forms,
   reference block parser), Model/Entry.v (sidecar files -> extended attributes),
   Model/Render0.v (the plain Gopher menu line). *)
From Coq Require Import String ZArith.
From PG Require Import Lib.Str Lib.Dec Lib.Crlf Lib.CrlfFacts Model.Entry Model.Render0 Model.GopherPlus Proofs.C15Facts.
Local Open Scope N_scope.

(* the +INFO block is "+INFO: " followed by exactly what the plain Gopher renderer
   produces for the same entry, byte for byte *)
Theorem C15_info_is_menu_line :
  forall keep admin srvname srvport moddate e,
    dict_get (lit "INFO") (e_ea e) = None ->
    getblock keep admin srvname srvport moddate (lit "+INFO") e =
    option_map (fun line => lit "+INFO: " ++ line) (gopher0_line srvname srvport e).
Proof. exact C15Facts.info_is_menu_line. Qed.
Print Assumptions C15_info_is_menu_line.

(* reading the "!" response with the reference parser gives INFO (payload = menu
   line), ADMIN, VIEWS (MIME type and size/1024) when the item has a type, then
   one block per extended attribute holding the lines of its text — nothing else *)
Theorem C15_blocks :
  forall keep admin srvname srvport moddate e p,
    wf_entry admin srvname srvport moddate e ->
    gopher0_payload srvname srvport e = Some p -> no_lf p ->
    exists text,
      gplus_info keep admin srvname srvport moddate e = Some (lit "+-2" ++ crlf ++ text) /\
      parse_blocks text = Some (expected_blocks keep admin moddate p (menu_adjust e)).
Proof. exact C15Facts.info_response_blocks. Qed.
Print Assumptions C15_blocks.

(* a sidecar of at most 20480 characters is read completely *)
Theorem C15_sidecar_read_completely :
  forall content, N.of_nat (List.length content) <= EA_HINT ->
    ea_lines content = map rstrip (lines_keepends (translate_newlines content)).
Proof. exact C15Facts.ea_lines_all. Qed.
Print Assumptions C15_sidecar_read_completely.

(* for printable content the block's lines are exactly the file's lines, right-stripped
   (repaired getblock; the single exception, a sidecar that is one blank line, is
   indistinguishable from an empty one after handleeaext: C15_single_blank_line_lost) *)
Theorem C15_sidecar_lines :
  forall name content, N.of_nat (List.length content) <= EA_HINT ->
    let ls := map rstrip (lines_keepends (translate_newlines content)) in
    Forall no_break ls -> ls <> [[]] ->
    ea_block_lines true name (ea_value content) = (PLUSC :: name ++ [COLON]) :: map (fun x => SP :: x) ls.
Proof. exact C15Facts.sidecar_block_lines. Qed.
Print Assumptions C15_sidecar_lines.

(* the pinned getblock (plain splitlines): only when the last line is not blank *)
Theorem C15_sidecar_lines_pinned :
  forall name content, N.of_nat (List.length content) <= EA_HINT ->
    let ls := map rstrip (lines_keepends (translate_newlines content)) in
    Forall no_break ls -> last ls [SP] <> [] ->
    ea_block_lines false name (ea_value content) = (PLUSC :: name ++ [COLON]) :: map (fun x => SP :: x) ls.
Proof. exact C15Facts.sidecar_block_lines_pinned. Qed.
Print Assumptions C15_sidecar_lines_pinned.

(* ... it drops a final blank line of a sidecar; the repaired one keeps it *)
Theorem C15_sidecar_trailing_blank_refuted :
  exists content,
    let ls := map rstrip (lines_keepends (translate_newlines content)) in
    Forall no_break ls /\ ea_body_lines false (ea_value content) <> ls /\
    ea_body_lines true (ea_value content) = ls.
Proof. exact C15Facts.sidecar_trailing_blank_refuted. Qed.
Print Assumptions C15_sidecar_trailing_blank_refuted.

Theorem C15_single_blank_line_lost :
  ea_value [10] = [] /\ forall keep, ea_body_lines keep (ea_value [10]) = [].
Proof. exact C15Facts.sidecar_single_blank_line_lost. Qed.
Print Assumptions C15_single_blank_line_lost.

(* used by C13: body lines of attribute blocks are never block headers *)
Theorem gplus_lines_never_headers :
  forall keep name v l, In l (tl (ea_block_lines keep name v)) ->
    exists x, l = SP :: x /\ no_break x /\ no_lf l /\ parse_header l = None.
Proof. exact C15Facts.gplus_lines_never_headers. Qed.
Print Assumptions gplus_lines_never_headers.

Theorem C15_ea_block_is_its_lines :
  forall keep name v, ea_block keep name v = unlines_crlf (ea_block_lines keep name v).
Proof. exact C15Facts.ea_block_unlines. Qed.
Print Assumptions C15_ea_block_is_its_lines.

(* "+" / "$": the exact length, which reads back, or the unknown-length marker *)
Theorem C15_length_prefix :
  forall e, match e_size e with
            | Some n => size_line e = PLUSC :: print_dec n ++ crlf /\ parse_dec (print_dec n) = Some n
            | None => size_line e = lit "+-2" ++ crlf
            end.
Proof. exact C15Facts.size_line_cases. Qed.
Print Assumptions C15_length_prefix.

(* non-vacuity: a file entry with two sidecars is well formed; its "!" response parses as stated *)
Example C15_example :
  wf_entry (lit "admin@example") (lit "gopher.example") 70%Z (fun _ => lit "<T>") example_entry /\
  option_map (fun t => parse_blocks (skipn 5 t))
    (gplus_info true (lit "admin@example") (lit "gopher.example") 70%Z (fun _ => lit "<T>") example_entry) =
  Some (Some [mkBlock (lit "INFO") (lit "0a.txt" ++ [9] ++ lit "/d/a.txt" ++ [9] ++ lit "gopher.example" ++ [9] ++ lit "70" ++ [9] ++ lit "+") [];
              mkBlock (lit "ADMIN") [] [lit "Admin: admin@example"; lit "Mod-Date: <T>"];
              mkBlock (lit "VIEWS") [] [lit "text/plain: <4k>"];
              mkBlock (lit "ABSTRACT") [] [lit "first line"; lit "second"];
              mkBlock (lit "KEYWORDS") [] [lit "k1 k2"]]).
Proof. split; [exact C15Facts.example_entry_wf | vm_compute; reflexivity]. Qed.
