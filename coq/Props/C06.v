(* C06 — the same site is seen through every protocol.
   Property theorems only.  Model: Model/RenderUrl.v (renderers, directory walk),
   Model/Render0.v (Gopher line), Model/ClientView.v (reference clients, `view`,
   well-formedness of entries), Model/Copy.v (MIME adjusters).
   Proofs: Proofs/C06Facts.v.

   `view sn sp e` is what a client should see of the entry e: (kind, display name,
   target) with kind information line / link on this server / URL.  Names are
   compared after the backslashreplace normalisation Gemini and Spartan apply;
   local targets are selectors (hrefs percent-decoded), remote targets gopher://
   URLs.  Text is decoded text (code points); the wire bytes are its encoding. *)
From Coq Require Import String ZArith.
From PG Require Import Lib.Str Lib.Crlf Lib.CrlfFacts Model.Entry Model.Render0 Model.Copy Model.RenderUrl Model.ClientView
     Proofs.TokFacts Proofs.C13Facts Proofs.C06Facts.
Local Open Scope N_scope.

(* every well-formed entry has a view *)
Theorem C06_view_defined : forall sn sp e, entry_wf sn sp e = true -> exists v, view sn sp e = Some v.
Proof. exact C06Facts.wf_view. Qed.
Print Assumptions C06_view_defined.

(* Gopher (and the "+" form of Gopher+): the menu line reader applied to the rendered line *)
Theorem C06_gopher_view : forall sn sp e, entry_wf sn sp e = true ->
  exists pl m v, gopher0_payload sn sp e = Some pl /\ no_lf pl /\
    parse_menu_line pl = Some m /\ view_mline sn sp m = Some v /\ view sn sp e = Some v.
Proof. exact C06Facts.gopher_line_wf. Qed.
Print Assumptions C06_gopher_view.

(* Gemini: the gemtext line reader applied to the rendered line *)
Theorem C06_gemini_view : forall sn sp e, entry_wf sn sp e = true ->
  exists l v, gem_renderobjinfo FGemini sn sp e = Some (l ++ [10]) /\ mem_N 10 l = false /\
              view_gemline l = v /\ view sn sp e = Some v.
Proof. exact (fun sn sp e => C06Facts.gem_line_wf FGemini sn sp e ltac:(discriminate)). Qed.
Print Assumptions C06_gemini_view.

Theorem C06_spartan_view : forall sn sp e, entry_wf sn sp e = true ->
  exists l v, gem_renderobjinfo FSpartan sn sp e = Some (l ++ [10]) /\ mem_N 10 l = false /\
              view_gemline l = v /\ view sn sp e = Some v.
Proof. exact (fun sn sp e => C06Facts.gem_line_wf FSpartan sn sp e ltac:(discriminate)). Qed.
Print Assumptions C06_spartan_view.

(* HTTP: the tokenizer run over the rendered row (from character data, whatever preceded it)
   returns to character data, the row reader gets one row and its view is the view of the entry *)
Theorem C06_http_view : forall icons sn sp e,
  icons_ok icons = true -> entry_wf sn sp e = true ->
  exists row r v,
    http_renderobjinfo icons sn sp e = Some row /\ reads_rows row [r] /\
    view_hrow r = v /\ view sn sp e = Some v.
Proof. exact C06Facts.http_row_view. Qed.
Print Assumptions C06_http_view.

(* WAP: the same for the item reader, at every value of the accesskey / postfield counters *)
Theorem C06_wap_view : forall waptop sn sp st e,
  is_local_href waptop = true -> entry_wf sn sp e = true ->
  exists row st' it v,
    wap_renderobjinfo waptop sn sp st e = Some (row, st') /\ reads_items row [it] /\
    view_witem waptop it = v /\ view sn sp e = Some v.
Proof. exact C06Facts.wap_row_view. Qed.
Print Assumptions C06_wap_view.

(* whole directories, every protocol: the client reads exactly the views of the entries handed to
   renderobjinfo (the entries, and the information lines made from abstracts), in order *)
Theorem C06_dir_view : forall p c d es,
  cfg_ok c d -> dir_wf (c_srvname c) (c_srvport c) d es = true ->
  exists body vs, render_dir p c d es = Some body /\ client_parse p c body = Some vs /\
                  views (c_srvname c) (c_srvport c) (dir_entries p c d es) = Some vs.
Proof. exact C06Facts.dir_view. Qed.
Print Assumptions C06_dir_view.

(* MAIN THEOREM: any two protocols show the same links in the same order with the same names
   and equivalent targets; and the same information lines too unless abstracts are left to
   protocols that carry them natively (abstract_entries = unsupported) and only one of the two does *)
Theorem C06_same_entries : forall p q c d es,
  cfg_ok c d -> dir_wf (c_srvname c) (c_srvport c) d es = true ->
  exists bp bq vp vq,
    render_dir p c d es = Some bp /\ render_dir q c d es = Some bq /\
    client_parse p c bp = Some vp /\ client_parse q c bq = Some vq /\
    filter not_info vp = filter not_info vq /\
    (c_abs_entries c <> AeUnsupported \/ groksabstract p = groksabstract q -> vp = vq).
Proof. exact C06Facts.same_entries. Qed.
Print Assumptions C06_same_entries.

(* the pinned renderers handed geturl the constant 70 for an entry without a port of its own: with the
   server on another port HTTP/WAP/Gemini/Spartan named a different port than the Gopher line
   (the model takes that port as a parameter; fixed in /repo ee294ab) *)
Theorem C06_default_port_refuted :
  exists sn sp row r l,
    entry_wf sn sp far_e = true /\
    http_renderobjinfo [] sn 70%Z far_e = Some row /\ html_rows row = [r] /\
    gem_renderobjinfo FGemini sn 70%Z far_e = Some (l ++ [10]) /\
    Some (view_hrow r) <> view sn sp far_e /\ Some (view_gemline l) <> view sn sp far_e /\
    v_target (view_hrow r) = Some (lit "gopher://other.example:70/9dot./x") /\
    option_map v_target (view sn sp far_e) = Some (Some (lit "gopher://other.example:7070/9dot./x")).
Proof. exact C06Facts.default_port_refuted. Qed.
Print Assumptions C06_default_port_refuted.

(* the MIME type adjusters agree except on the menu type, which each protocol maps to its own
   listing type; WAP additionally converts text/plain and untyped documents *)
Theorem C06_mime_equiv : forall m,
  (m <> Some MENU -> http_adjust m = gemini_adjust m) /\
  (http_adjust (Some MENU) = lit "text/html" /\ gemini_adjust (Some MENU) = lit "text/gemini" /\
   wap_adjust (Some MENU) = WML_TYPE) /\
  (m <> None -> m <> Some (lit "text/plain") -> m <> Some MENU -> wap_adjust m = http_adjust m) /\
  (http_adjust None = lit "text/plain" /\ gemini_adjust None = lit "text/plain" /\ wap_adjust None = WML_TYPE).
Proof. exact C06Facts.mime_equiv. Qed.
Print Assumptions C06_mime_equiv.

(* non-vacuity: a directory with a hostile name, a name that is not UTF-8, a selector with reserved
   characters, a search entry, a remote entry, a URL: entry and an abstract satisfies the hypotheses,
   and the six clients read the same seven items *)
Definition ex_e (sel ty name : str) (host : option str) (port : option Z) (ea : list (str * str)) : entry :=
  mkEntry sel (Some ty) (Some name) host port None None None None None None None 0%Z false false ea.
Definition ex_cfg : lcfg :=
  mkLcfg (lit "gopher.example") 70%Z true AeAlways [(lit "0", lit "text.gif")] (lit "/wap") None None None.
Definition ex_dir : entry := ex_e (lit "/dir1") (lit "1") (lit "dir <1>") None None [(lit "ABSTRACT", lit "about dir1")].
Definition ex_es : list entry :=
  [ex_e (lit "/a b?.txt") (lit "0") (lit "</TT><H1>&""x") None None [(lit "ABSTRACT", lit "first" ++ [10] ++ lit "second <x>")];
   ex_e ([47; 56494] ++ lit ".txt") (lit "0") ([56494] ++ lit ".txt") None None [];
   ex_e (lit "/find") (lit "7") (lit "search") None None [];
   ex_e (lit "/pub") (lit "1") (lit "remote") (Some (lit "other.example")) (Some 7070%Z) [];
   ex_e (lit "URL:http://www.example.org/x?y=1&z=2") (lit "h") (lit "web") None None []].
Definition ex_views : list vitem :=
  [mkVitem KInfo (lit "about dir1") None;
   mkVitem KLink (lit "</TT><H1>&""x") (Some (lit "/a b?.txt"));
   mkVitem KInfo (lit "first") None;
   mkVitem KInfo (lit "second <x>") None;
   mkVitem KLink (lit "\xae.txt") (Some ([47; 56494] ++ lit ".txt"));
   mkVitem KLink (lit "search") (Some (lit "/find"));
   mkVitem KUrl (lit "remote") (Some (lit "gopher://other.example:7070/1/pub"));
   mkVitem KUrl (lit "web") (Some (lit "http://www.example.org/x?y=1&z=2"))].
Definition ex_read (p : lproto) : option (list vitem) :=
  match render_dir p ex_cfg ex_dir ex_es with Some body => client_parse p ex_cfg body | None => None end.
Example C06_example :
  cfg_ok ex_cfg ex_dir /\ dir_wf (c_srvname ex_cfg) (c_srvport ex_cfg) ex_dir ex_es = true /\
  forall p, ex_read p = Some ex_views.
Proof.
  split; [|split].
  - repeat split; try reflexivity. exists (lit "gopher://gopher.example:70/1/dir1"). vm_compute. reflexivity.
  - vm_compute. reflexivity.
  - intros p; destruct p; vm_compute; reflexivity.
Qed.
