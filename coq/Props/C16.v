(* C16 — ZIP archives are transparent.
   Property theorems only; each is closed by `exact <lemma>` and followed by
   Print Assumptions.  Model: Model/Zip.v (handlers/ZIP.py: populate_cache,
   _getcacheinode with entrycache / invalid_paths, the VFS operations; the
   reference: the same members extracted to a real tree, resolved by the OS
   rule) and Model/ZipChain.v (handler choice).  `repaired` is the code with the
   fixes ca35267 (symlink resolution), 7f81718 (exact VFS type) and 91cede6 (selectors outside the archive); `pinned` /
   `pinned_tests` is the code as found, kept for the _refuted witnesses. *)
From Coq Require Import String.
From PG Require Import Lib.Str Lib.ZipPath Model.Zip Model.ZipChain
  Proofs.C16Index Proofs.C16Cache Proofs.C16Target Proofs.C16Chain Proofs.C16Facts.
Local Open Scope nat_scope.

(* ---- the index of an archive without links is exactly what the member names say ----
   for every query string s (q = its "/"-fields, [] for the archive root):
   a file iff the k-th member is a file named q; a directory iff q is the root or a
   prefix of some member's directory part (explicit and implicit directories alike);
   its children are exactly the next components of members below it. *)
Theorem zip_lookup_spec :
  forall v ms t c, wf_zip ms = true -> no_links ms = true -> populate v ms = Ok (t, c) ->
  forall s,
    let q := qcomps s in
    (forall k, (exists i, vfs_plookup t s = LFile i k) <-> is_entry ms k q) /\
    ((exists i, vfs_plookup t s = LDir i) <-> is_dirpath ms q) /\
    (forall i, vfs_plookup t s = LDir i ->
       forall n, In n (dir_names t i) <-> (is_dirpath ms (q ++ [n]) \/ exists k, is_entry ms k (q ++ [n]))).
Proof. exact C16Facts.zip_lookup_spec. Qed.
Print Assumptions zip_lookup_spec.

(* ---- populate_cache neither raises nor leaves stale memo entries on a well-formed archive ---- *)
Theorem C16_populate_total :
  forall ms, wf_zip ms = true -> nice_links ms = true ->
  exists t c, populate repaired ms = Ok (t, c) /\ labels_ok t /\ caches_ok t c.
Proof. exact C16Facts.populate_ok. Qed.
Print Assumptions C16_populate_total.

(* ---- the memoised lookup (entrycache, invalid_paths) equals the plain traversal, and stays
   consistent, for every state reachable from there: so every VFS operation
   (stat/isdir/isfile/exists/listdir/open = vfs_lookup + classify) may be read off vfs_plookup ---- *)
Theorem C16_cache_transparent :
  forall t c s, labels_ok t -> caches_ok t c -> canonb s = true ->
    fst (vfs_lookup t c s) = vfs_plookup t s /\ caches_ok t (snd (vfs_lookup t c s)).
Proof. exact C16Cache.vfs_lookup_plain. Qed.
Print Assumptions C16_cache_transparent.

(* ---- archive = extracted tree, for every query: class, bytes, children as sets;
   regular members and links (chains, links to directories, absolute, "..", dangling,
   cyclic, climbing) alike.  os_res is the OS resolution inside the extracted tree. ---- *)
Theorem C16_vfs_equal :
  forall ms t c, wf_zip ms = true -> nice_links ms = true -> populate repaired ms = Ok (t, c) ->
  forall s, canonb s = true ->
    let q := qcomps s in
    let f := extract ms in
    match vfs_plookup t s with
    | LAbsent => forall r, ~ os_res f [] q r
    | LFile _ k => exists r, os_res f [] q r /\ fs_get r f = Some (TFile (member_data ms k))
    | LDir i => exists r, os_res f [] q r /\ (r = [] \/ fs_get r f = Some TDir) /\
                  (forall n, In n (dir_names t i) -> plain_comp n = true) /\
                  (forall n, plain_comp n = true -> (In n (dir_names t i) <-> exists r', os_res f r [n] r'))
    end.
Proof. exact C16Facts.vfs_equal. Qed.
Print Assumptions C16_vfs_equal.

(* ---- links resolve only to other members: the entry of a link is the lookup, IN THE INDEX,
   of its lexically normalised target; a target that normalises to a leading ".." has none ---- *)
Theorem C16_links_inside :
  forall ms t c, wf_zip ms = true -> nice_links ms = true -> populate repaired ms = Ok (t, c) ->
  forall m d, In m ms -> m_kind m = KLink d -> name_base (m_name m) <> [] ->
    vfs_plookup t (m_name m) =
    match target_comps (name_levels (m_name m)) d with
    | Some tc => classify t (walk t 0 tc)
    | None => LAbsent
    end.
Proof. exact C16Facts.links_inside. Qed.
Print Assumptions C16_links_inside.

(* ---- the symlink fixpoint terminates on every archive (cycles included), in every variant:
   the number of pending links (+2) is enough fuel ---- *)
Theorem C16_links_terminate : forall v ms, populate v ms <> Err OutOfFuel.
Proof. exact C16Loop.populate_terminates. Qed.
Print Assumptions C16_links_terminate.

(* ---- handlers that need a real file never act on archive members: whatever the handler
   list and whatever else the handlers look at, if every real-file-only handler is guarded
   by a test that turns VFSZip away ---- *)
Theorem C16_real_only :
  forall sub ts, guards sub ts = true ->
  forall secure other hs h, choose sub ts VZip secure other hs = Some h -> real_only h = false.
Proof. exact C16Chain.real_only_never_chosen. Qed.
Print Assumptions C16_real_only.

Theorem C16_exact_type_guards : guards true exact_tests = true.
Proof. exact C16Chain.exact_tests_guard. Qed.
Print Assumptions C16_exact_type_guards.

(* ---- the code as pinned ---- *)
(* isinstance(self.vfs, VFS_Real) is true for VFSZip (D19) *)
Theorem C16_real_only_refuted :
  exists secure other hs, choose true pinned_tests VZip secure other hs = Some HMBoxFolder.
Proof. exact C16Chain.pinned_tests_refuted. Qed.
Print Assumptions C16_real_only_refuted.
Theorem C16_real_only_message_refuted :
  exists secure other hs, choose true pinned_tests VZip secure other hs = Some HMBoxMessage.
Proof. exact C16Chain.pinned_message_refuted. Qed.
Print Assumptions C16_real_only_message_refuted.
(* links that the extracted tree resolves and the pinned index drops *)
Theorem C16_stale_negative_cache_refuted : pinned_loses ms_stale (lit "l1"%string).
Proof. exact C16Facts.stale_negative_cache_refuted. Qed.
Print Assumptions C16_stale_negative_cache_refuted.
Theorem C16_link_dirname_encoding_refuted : pinned_loses ms_enc (cafe ++ lit "/l"%string).
Proof. exact C16Facts.link_dirname_encoding_refuted. Qed.
Print Assumptions C16_link_dirname_encoding_refuted.
Theorem C16_link_to_root_refuted : pinned_loses ms_root (lit "d/up"%string).
Proof. exact C16Facts.link_to_root_refuted. Qed.
Print Assumptions C16_link_to_root_refuted.

(* ---- a selector that is neither the archive nor below it is answered by the file system the
   archive lives in (`chain` = that file system's own answer to the same call) ---- *)
Theorem C16_outside_delegates :
  forall ms t c zname op sel chain,
    inarchive zname sel = false -> vfs_op repaired ms t c zname op sel chain = (chain, c).
Proof. exact C16Facts.outside_delegates. Qed.
Print Assumptions C16_outside_delegates.
Theorem C16_outside_cut_refuted :
  exists ms t c, populate pinned ms = Ok (t, c) /\
    inarchive (lit "/T.zip"%string) (lit "URL:ab"%string) = false /\
    fst (vfs_op pinned ms t c (lit "/T.zip"%string) VStat (lit "URL:ab"%string) RExc) = RStatDir.
Proof. exact C16Facts.outside_cut_refuted. Qed.
Print Assumptions C16_outside_cut_refuted.

(* ---- non-vacuity: a well-formed archive with an explicit directory, files, a link to the
   root, a chain through it, an absolute link, a cycle, a climber and a dangling link ---- *)
Example C16_example :
  wf_zip ms_example = true /\ nice_links ms_example = true /\
  exists t c, populate repaired ms_example = Ok (t, c) /\
    (exists i k, vfs_plookup t (lit "docs/up/l"%string) = LFile i k /\ member_data ms_example k = lit "alpha"%string) /\
    (exists i, vfs_plookup t (lit "abs"%string) = LDir i /\ dir_names t i = [lit "a.txt"%string; lit "up"%string]) /\
    vfs_plookup t (lit "cyc1"%string) = LAbsent /\ vfs_plookup t (lit "out"%string) = LAbsent /\
    vfs_plookup t (lit "dangling"%string) = LAbsent.
Proof. exact C16Facts.example_ok. Qed.
Print Assumptions C16_example.
