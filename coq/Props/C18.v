(* C18 — simpleTAL never lets data become markup, code or leftover state.
   Property theorems only. *)
From Coq Require Import String.
From PG Require Import Lib.Str Model.TALProg Model.TALProgSpec Model.TALVM Proofs.TALVMFacts.
Local Open Scope N_scope.

(* After any expansion the caller's context is what it was: for EVERY structurally well-formed
   program (wf_program is evaluated on the real compiler's output in Corr/K17), EVERY data state
   and ALL ways the data may decide conditions, repeat lengths, nothing/default/value/template
   contents and macro look-ups — including false conditions, empty repeats, missing paths
   (= nothing), macro calls with slot filling — a run of the interpreter that terminates
   ends with locals, localStack, repeatMap, repeatStack exactly as before, an empty scope stack
   and the program counter at the end; and the interpreter never gets stuck (no pop from an empty
   or wrongly shaped stack, no undefined symbol).  Termination is by explicit fuel: the statement
   covers every fuel, i.e. every terminating run. *)
Theorem C18_context_restored :
  forall (p : program) (t : symtab) (m : macrotab), wf_program p t m = true ->
  forall (D : Type) (o_cond : D -> cmd -> bool) (o_rep : D -> cmd -> rep_dec) (o_val : D -> cmd -> val_dec)
         (o_mac : D -> cmd -> mac_dec) (o_upd : D -> nat -> cmd -> D) (fuel : nat) (c : ctx) (d : D),
    vm_run p t (all_subs p m) D o_cond o_rep o_val o_mac o_upd fuel c d <> Stuck /\
    forall mf, vm_run p t (all_subs p m) D o_cond o_rep o_val o_mac o_upd fuel c d = Done mf ->
      c_sc (cx D mf) = c_sc c /\ sstack D mf = [] /\ pc D mf = length p.
Proof. exact TALVMFacts.context_restored. Qed.
Print Assumptions C18_context_restored.

(* ... and the only names an expansion can add to the globals are those of explicit `global`
   defines of the template (plus the built-in slots `repeat` and `attrs`, which exist already). *)
Theorem C18_globals_only_explicit :
  forall (p : program) (t : symtab) (subs : list subt) (D : Type) o_cond o_rep o_val o_mac o_upd
         (fuel : nat) (c : ctx) (d : D) (mf : mach D),
    vm_run p t subs D o_cond o_rep o_val o_mac o_upd fuel c d = Done mf ->
    forall x, In x (c_globals (cx D mf)) ->
      In x (c_globals c) \/ In x (prog_globals p) \/ x = REPEAT \/ x = ATTRS.
Proof. exact TALVMFacts.globals_only_explicit. Qed.
Print Assumptions C18_globals_only_explicit.

(* non-vacuity: the real program of <p tal:define="x a; global g b" tal:repeat="i l" tal:content="i">d</p>
   is well formed, and a run with a three-item sequence terminates with the context restored
   (the define pushes the locals once, the repeat once more; both are popped) *)
Definition ex_prog : program :=
  [CStartScope [] []; CDefine [(true, (lit "x"%string, lit "a"%string)); (false, (lit "g"%string, lit "b"%string))];
   CRepeat (lit "i"%string) (lit "l"%string) 2%nat; CContent false false (lit "i"%string) 2%nat;
   CStartTag (lit "p"%string) false; COutput (lit "d"%string); CEndTagEndScope (lit "p"%string) false false].

Example C18_example :
  wf_program ex_prog [(2%nat, 6%nat)] [] = true /\
  match vm_run ex_prog [(2%nat, 6%nat)] [] unit (fun _ _ => true) (fun _ _ => RLoop 2) (fun _ _ => VValue)
               (fun _ _ => MOther) (fun d _ _ => d) 40 (mkCtx (mkSc [lit "v"%string] [] [] []) [lit "l"%string]) tt with
  | Done mf => c_sc (cx unit mf) = mkSc [lit "v"%string] [] [] [] /\
               c_globals (cx unit mf) = [lit "repeat"%string; lit "g"%string; lit "attrs"%string; lit "l"%string]
  | _ => False
  end.
Proof. vm_compute. repeat split; reflexivity. Qed.
