(* C18 — simpleTAL never lets data become markup, code or leftover state.
   Property theorems only. *)
From Coq Require Import String.
From PG Require Import Lib.Str Lib.HtmlEsc Model.TALProg Model.TALProgSpec Model.TALVM Proofs.TALVMFacts
                       Model.TALCompile Proofs.TALCompileFacts Model.TALOut Proofs.TALOutFacts
                       Model.TALESEval Proofs.TALESEvalFacts Proofs.TALCompileWf.
Local Open Scope N_scope.

(* After any expansion the caller's context is what it was: for EVERY structurally well-formed
   program (wf_program is evaluated on the real compiler's output in Corr/K17), EVERY data state
   and ALL ways the data may decide conditions, repeat lengths, nothing/default/value/template
   contents and macro look-ups — including false conditions, empty repeats, missing paths
   (= nothing), macro calls with slot filling — a run of the interpreter that terminates
   ends with locals, localStack, repeatMap, repeatStack exactly as before, an empty scope stack
   and the program counter at the end; and the interpreter never gets stuck (no pop from an empty
   or wrongly shaped stack, no undefined symbol).  Termination is by explicit fuel: the statement
   covers every fuel, i.e. every terminating run. *)
Theorem C18_context_restored :
  forall (p : program) (t : symtab) (m : macrotab), wf_program p t m = true ->
  forall (D : Type) (o_cond : D -> cmd -> bool) (o_rep : D -> cmd -> rep_dec) (o_val : D -> cmd -> val_dec)
         (o_mac : D -> cmd -> mac_dec) (o_upd : D -> nat -> cmd -> D) (fuel : nat) (c : ctx) (d : D),
    vm_run p t (all_subs p m) D o_cond o_rep o_val o_mac o_upd fuel c d <> Stuck /\
    forall mf, vm_run p t (all_subs p m) D o_cond o_rep o_val o_mac o_upd fuel c d = Done mf ->
      c_sc (cx D mf) = c_sc c /\ sstack D mf = [] /\ pc D mf = length p.
Proof. exact TALVMFacts.context_restored. Qed.
Print Assumptions C18_context_restored.

(* ... unconditionally for compiled programs: whatever template the (repaired) compiler accepts, every
   terminating expansion of it restores the caller's scopes, and the interpreter never gets stuck *)
Theorem C18_context_restored_compiled :
  forall (es : list event) (p : program) (t : symtab) (m : macrotab), compile repaired es = COk (p, (t, m)) ->
  forall (D : Type) (o_cond : D -> cmd -> bool) (o_rep : D -> cmd -> rep_dec) (o_val : D -> cmd -> val_dec)
         (o_mac : D -> cmd -> mac_dec) (o_upd : D -> nat -> cmd -> D) (fuel : nat) (c : ctx) (d : D),
    vm_run p t (all_subs p m) D o_cond o_rep o_val o_mac o_upd fuel c d <> Stuck /\
    forall mf, vm_run p t (all_subs p m) D o_cond o_rep o_val o_mac o_upd fuel c d = Done mf ->
      c_sc (cx D mf) = c_sc c /\ sstack D mf = [] /\ pc D mf = length p.
Proof. exact TALCompileWf.context_restored_compiled. Qed.
Print Assumptions C18_context_restored_compiled.

(* ... and the only names an expansion can add to the globals are those of explicit `global`
   defines of the template (plus the built-in slots `repeat` and `attrs`, which exist already). *)
Theorem C18_globals_only_explicit :
  forall (p : program) (t : symtab) (subs : list subt) (D : Type) o_cond o_rep o_val o_mac o_upd
         (fuel : nat) (c : ctx) (d : D) (mf : mach D),
    vm_run p t subs D o_cond o_rep o_val o_mac o_upd fuel c d = Done mf ->
    forall x, In x (c_globals (cx D mf)) ->
      In x (c_globals c) \/ In x (prog_globals p) \/ x = REPEAT \/ x = ATTRS.
Proof. exact TALVMFacts.globals_only_explicit. Qed.
Print Assumptions C18_globals_only_explicit.

(* non-vacuity: the real program of <p tal:define="x a; global g b" tal:repeat="i l" tal:content="i">d</p>
   is well formed, and a run with a three-item sequence terminates with the context restored
   (the define pushes the locals once, the repeat once more; both are popped) *)
Example C18_example :
  let ex_prog :=
    [CStartScope [] []; CDefine [(true, (lit "x"%string, lit "a"%string)); (false, (lit "g"%string, lit "b"%string))];
     CRepeat (lit "i"%string) (lit "l"%string) 2%nat; CContent false false (lit "i"%string) 2%nat;
     CStartTag (lit "p"%string) false; COutput (lit "d"%string); CEndTagEndScope (lit "p"%string) false false] in
  wf_program ex_prog [(2%nat, 6%nat)] [] = true /\
  match vm_run ex_prog [(2%nat, 6%nat)] [] unit (fun _ _ => true) (fun _ _ => RLoop 2) (fun _ _ => VValue)
               (fun _ _ => MOther) (fun d _ _ => d) 40 (mkCtx (mkSc [lit "v"%string] [] [] []) [lit "l"%string]) tt with
  | Done mf => c_sc (cx unit mf) = mkSc [lit "v"%string] [] [] [] /\
               c_globals (cx unit mf) = [lit "repeat"%string; lit "g"%string; lit "attrs"%string; lit "l"%string]
  | _ => False
  end.
Proof. vm_compute. repeat split; reflexivity. Qed.

(* ---- data never becomes markup (Model/TALOut.v; tied to the real interpreter by Corr/K17.chk_out) ---- *)
(* text inserted without `structure` is html.escape(v, quote=False): no angle bracket survives and a
   browser decodes it back to exactly the data *)
Theorem C18_text_escaped :
  forall v : str,
    content_text false v = escape false v /\
    mem_N LT (content_text false v) = false /\ mem_N GT (content_text false v) = false /\
    unescape (content_text false v) = v.
Proof. exact TALOutFacts.text_escaped. Qed.
Print Assumptions C18_text_escaped.

(* every attribute value is written between double quotes as html.escape(v, quote=True): it contains
   no double quote and no angle bracket, so it can neither end the attribute nor the tag *)
Theorem C18_attribute_escaped :
  forall (name v : str),
    att_text (name, v) = [SP] ++ name ++ lit "="""%string ++ escape true v ++ lit """"%string /\
    mem_N DQ (escape true v) = false /\ mem_N LT (escape true v) = false /\ mem_N GT (escape true v) = false /\
    unescape (escape true v) = v.
Proof. exact TALOutFacts.attribute_escaped. Qed.
Print Assumptions C18_attribute_escaped.

(* the attributes of a start tag after tal:attributes come from the template or from the evaluated
   statements, nowhere else *)
Theorem C18_attribute_sources :
  forall evald cur n v, In (n, v) (apply_attributes evald cur) -> In (n, AValue v) evald \/ In (n, v) cur.
Proof. exact TALOutFacts.apply_attributes_sources. Qed.
Print Assumptions C18_attribute_sources.

(* ---- python: is never evaluated when Python paths are disabled
        (Model/TALESEval.v; tied to the real Context.evaluate by Corr/K17.chk_eval, which also compares
        the number of real eval() calls) ---- *)
Theorem C18_python_gate :
  forall (val : Type) (v_false v_true : val) (v_str : str -> val) (is_none is_default truthy : val -> bool)
         (text_of : val -> str) (traverse : str -> bool -> option val) (py : str -> val) (strip1 : bool) (fuel : nat) (e : str),
    snd (evaluate val v_false v_true v_str is_none is_default truthy text_of traverse py strip1 fuel false e) = 0%nat /\
    eval_python val v_false py false e = (Some v_false, 0%nat).
Proof. exact TALESEvalFacts.python_gate_full. Qed.
Print Assumptions C18_python_gate.

(* ---- a template without TAL/METAL compiles to the single OUTPUT of its own serialisation ---- *)
Theorem C18_passthrough :
  forall v es p t m, forallb tal_free_event es = true -> compile v es = COk (p, (t, m)) ->
    t = [] /\ m = [] /\ (p = [COutput (passthrough_text v es)] \/ (p = [] /\ passthrough_text v es = [])).
Proof. exact TALCompileFacts.passthrough. Qed.
Print Assumptions C18_passthrough.

(* the pinned compiler escaped the content of script / style (which html.parser delivers raw and
   browsers do not decode): not a pass-through; the repaired one writes it back unchanged *)
Theorem C18_passthrough_cdata_refuted :
  passthrough_text pinned [EvStart SCRIPT []; EvData (lit "a<b"%string) true; EvEnd SCRIPT] = lit "<script>a&lt;b</script>"%string /\
  passthrough_text repaired [EvStart SCRIPT []; EvData (lit "a<b"%string) true; EvEnd SCRIPT] = lit "<script>a<b</script>"%string.
Proof. exact TALCompileFacts.cdata_pinned_vs_repaired. Qed.
Print Assumptions C18_passthrough_cdata_refuted.

(* Not proved: that the second expansion of a pass-through document is a fixpoint needs a model of
   html.parser reading back what tag_as_text / escape write; it is checked on the real code for every
   generated document (harness/c18.py, oracle d). *)
