(* C18 — simpleTAL never lets data become markup, code or leftover state.
   Property theorems only. *)
From Coq Require Import String.
From PG Require Import Lib.Str Model.TALProg Model.TALVM.
Local Open Scope N_scope.

(* non-vacuity: a real compiled program (<p tal:define="x a" tal:repeat="i l" tal:content="i">d</p>) is well formed *)
Example C18_wf_example :
  wf_program
    [CStartScope [] []; CDefine [(true, (lit "x"%string, lit "a"%string))]; CRepeat (lit "i"%string) (lit "l"%string) 2%nat;
     CContent false false (lit "i"%string) 2%nat; CStartTag (lit "p"%string) false; COutput (lit "d"%string);
     CEndTagEndScope (lit "p"%string) false false]
    [(2%nat, 6%nat)] [] = true.
Proof. vm_compute. reflexivity. Qed.
