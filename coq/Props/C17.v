(* C17 — simpleTAL executes templates according to TAL/TALES semantics; compiled programs
   are structurally well formed.  Property theorems only. *)
From Coq Require Import String.
From Coq Require Import Sorted Permutation.
From PG Require Import Lib.Str Model.TALES Proofs.TALESFacts Model.TALProg Model.TALProgSpec Proofs.TALProgFacts
                       Model.TALCompile Proofs.TALCompileFacts Model.TALESEval Proofs.TALESEvalFacts
                       Model.TALVM Model.TALOut Proofs.TALOutFacts Proofs.TALCompileWf Proofs.TALVMTerm
                       Model.TALSpec Proofs.TALSpecFacts Model.TALSpecFull Proofs.TALSpecFullFacts Model.TALDoc Proofs.TALDocFacts.
Local Open Scope N_scope.

(* ---- compiled programs are structurally well formed ----
   wf_program is evaluated inside Coq on the REAL compiler's commandList / symbolTable / macros
   for every generated template (Corr/K17.chk_wf); what it establishes: *)
Theorem C17_wf_program_sound :
  forall (p : program) (t : symtab) (m : macrotab), wf_program p t m = true ->
    (* scopes balanced and properly nested, commands in priority order, symbols -> owning end tag *)
    wfitems t 0 p /\
    (* every macro and every slot filler is exactly one element of the program *)
    (forall s, In s (all_subs p m) -> valid_sub p t s).
Proof. exact TALProgFacts.wf_program_sound. Qed.
Print Assumptions C17_wf_program_sound.

(* commands on one element appear in opcode = TAL priority order (METAL first), and every jump
   target is the ENDTAG_ENDSCOPE of the element that owns the command *)
Theorem C17_priority :
  forall (t : symtab) (o : nat) (el : list cmd), wfelem t o el ->
    exists sc head st body en,
      el = sc :: head ++ st :: body ++ [en] /\ StronglySorted rank_lt head /\
      (forall c s, In c head -> cmd_sym c = Some s ->
                   lookup_sym t s = Some (o + 2 + length head + length body)%nat) /\
      nth_error el (2 + length head + length body) = Some en /\ is_etag en = true.
Proof. exact TALProgFacts.wfelem_priority. Qed.
Print Assumptions C17_priority.

(* non-vacuity: the real program of
   <li tal:omit-tag="" tal:attributes="id i" tal:content="i" tal:repeat="i l" tal:condition="l" tal:define="l l1">x</li>
   (statements written in reverse order in the source) *)
Example C17_wf_example :
  wf_program
    [CStartScope [] []; CDefine [(true, (lit "l"%string, lit "l1"%string))]; CCondition (lit "l"%string) 2%nat;
     CRepeat (lit "i"%string) (lit "l"%string) 2%nat; CContent false false (lit "i"%string) 2%nat;
     CAttributes [(lit "id"%string, lit "i"%string)]; COmitTag (lit "default"%string);
     CStartTag (lit "li"%string) false; COutput (lit "x"%string); CEndTagEndScope (lit "li"%string) false false]
    [(2%nat, 9%nat)] [] = true /\
  (* ... and the same commands in source order are rejected *)
  wf_program
    [CStartScope [] []; COmitTag (lit "default"%string); CAttributes [(lit "id"%string, lit "i"%string)];
     CStartTag (lit "li"%string) false; COutput (lit "x"%string); CEndTagEndScope (lit "li"%string) false false]
    [(2%nat, 5%nat)] [] = false.
Proof. vm_compute. split; reflexivity. Qed.

(* ---- repeat variables (simpleTALES.RepeatVariable) ---- *)
Theorem C17_tales_repeat_number : forall pos, rv_number pos = rv_index pos + 1.
Proof. exact TALESFacts.number_is_index_plus_one. Qed.
Print Assumptions C17_tales_repeat_number.

Theorem C17_tales_repeat_even_odd :
  forall pos, rv_even pos + rv_odd pos = 1 /\ (rv_even pos = 1 <-> pos mod 2 = 0) /\ (rv_odd pos = 1 <-> pos mod 2 = 1).
Proof. exact TALESFacts.even_odd_complementary. Qed.
Print Assumptions C17_tales_repeat_even_odd.

Theorem C17_tales_repeat_start : forall pos, rv_start pos = 1 <-> pos = 0.
Proof. exact TALESFacts.start_iff_first. Qed.
Print Assumptions C17_tales_repeat_start.

Theorem C17_tales_repeat_end : forall pos len, rv_end pos len = 1 <-> (0 < len /\ pos = len - 1).
Proof. exact TALESFacts.end_iff_last. Qed.
Print Assumptions C17_tales_repeat_end.

(* `letter` writes the position as a base-26 numeral with the digits a..z (as Zope's iterator
   does): reading the numeral back gives the position, for every position; hence injective *)
Theorem C17_tales_repeat_letter : forall pos, parse_letter (rv_letter pos) = Some pos.
Proof. exact TALESFacts.letter_inverse. Qed.
Print Assumptions C17_tales_repeat_letter.

Theorem C17_tales_repeat_letter_injective : forall a b, rv_letter a = rv_letter b -> a = b.
Proof. exact TALESFacts.letter_injective. Qed.
Print Assumptions C17_tales_repeat_letter_injective.

(* `roman` at position n is a numeral whose value is n+1, for every n < 3999 (finite sweep) *)
Theorem C17_tales_repeat_roman : forall n, n < 3999 -> parse_roman (rv_roman n) = Some (n + 1).
Proof. exact TALESFacts.roman_inverse. Qed.
Print Assumptions C17_tales_repeat_roman.

Example C17_tales_example :
  rv_letter 27 = lit "bb"%string /\ rv_Roman 1986 = lit "MCMLXXXVII"%string /\ rv_roman 4000 = lit " "%string /\
  rv_end 2 3 = 1 /\ rv_end 0 0 = 0.
Proof. vm_compute. repeat split; reflexivity. Qed.

(* ---- the compiler model (Model/TALCompile.v; tied to the real compiler by Corr/K17.chk_compile on the
        recorded html.parser events of every generated template) ---- *)

(* parseStartTag orders the statements of an element by sorting the opcodes it found: the order
   emitted is sorted and is a permutation of what was written, whatever the order in the source *)
Theorem C17_priority_sort :
  forall l : list nat, LocallySorted le (sort_nat l) /\ Permutation l (sort_nat l).
Proof. exact TALCompileFacts.sort_nat_spec. Qed.
Print Assumptions C17_priority_sort.

(* the repaired argument parser recognises the `text` keyword of tal:content / tal:replace *)
Theorem C17_text_keyword :
  forall (repl : bool) (e : str) (sym : nat), e <> [] -> mem_N SP e = false ->
    compile_content repaired repl (TEXT ++ [SP] ++ e) sym = Some (CContent repl false e sym).
Proof. exact TALCompileFacts.content_text_keyword_repaired. Qed.
Print Assumptions C17_text_keyword.

(* DESIGN D13, the pinned compiler: tal:content="text foo" is compiled to the PATH "text foo" *)
Theorem C17_text_keyword_refuted :
  exists es p t m, compile pinned es = COk (p, (t, m)) /\
                   In (CContent false false (lit "text foo"%string) 2%nat) p /\
                   exists p', compile repaired es = COk (p', (t, m)) /\ In (CContent false false (lit "foo"%string) 2%nat) p'.
Proof. exact TALCompileFacts.text_keyword_refuted. Qed.
Print Assumptions C17_text_keyword_refuted.

(* "Every compiled program is structurally well-formed": for EVERY event stream that the (repaired)
   compiler model accepts — any nesting, any TAL and METAL statements, TAL-namespace elements, HTML
   elements without end tags, unclosed plain elements — the emitted commandList / symbolTable / macros
   pass wf_program (hence C17_wf_program_sound: scopes balanced and properly nested, commands in
   priority order, every jump target the ENDTAG_ENDSCOPE of the owning element, every macro and slot
   exactly one element).  Proof: induction over the event stream with the tag-stack invariant
   (Proofs/TALCompileWf.v), and completeness of the boolean checker (Proofs/TALProgComplete.v).
   The compile model is tied to the real compiler by Corr/K17.chk_compile on every run. *)
Theorem C17_wf_program :
  forall es p t m, compile repaired es = COk (p, (t, m)) -> wf_program p t m = true.
Proof. exact TALCompileWf.compile_wf. Qed.
Print Assumptions C17_wf_program.

(* the pinned compiler accepts a template whose last TAL element is never closed and returns a
   program that is NOT well formed; the repaired one rejects the template *)
Theorem C17_wf_program_refuted :
  exists es, (exists p t m, compile pinned es = COk (p, (t, m)) /\ wf_program p t m = false) /\ compile repaired es = CErr.
Proof. exact TALCompileFacts.wf_refuted. Qed.
Print Assumptions C17_wf_program_refuted.

(* ... so does a compiler that emits a statement given twice on one element (two tal:define push the
   locals twice) — the repaired one rejects the template — *)
Theorem C17_wf_program_duplicate_refuted :
  exists es, (exists p t m, compile no_dup_fix es = COk (p, (t, m)) /\ wf_program p t m = false) /\ compile repaired es = CErr.
Proof. exact TALCompileFacts.duplicate_pinned_not_wf. Qed.
Print Assumptions C17_wf_program_duplicate_refuted.

(* ... and one that lets a macro start where define-macro is compiled rather than where its element
   starts (use-macro + define-macro on one element, the METAL idiom for extending a macro) *)
Theorem C17_wf_program_substart_refuted :
  exists es, (exists p t m, compile no_start_fix es = COk (p, (t, m)) /\ wf_program p t m = false) /\
             (exists p t m, compile repaired es = COk (p, (t, m)) /\ wf_program p t m = true).
Proof. exact TALCompileFacts.substart_pinned_not_wf. Qed.
Print Assumptions C17_wf_program_substart_refuted.

(* ---- TALES (Model/TALESEval.v; tied to the real Context.evaluate by Corr/K17.chk_eval) ---- *)
(* alternation: the value is that of the first alternative that exists *)
Theorem C17_tales_alternation :
  forall (val : Type) (ev : str -> result val) pre a post v,
    (forall x, In x pre -> fst (ev (strip x)) = None) -> fst (ev (strip a)) = Some v ->
    forall n, fst (first_found val ev (pre ++ a :: post) n) = Some v.
Proof. exact TALESEvalFacts.first_found_picks. Qed.
Print Assumptions C17_tales_alternation.

Theorem C17_tales_alternation_none :
  forall (val : Type) (ev : str -> result val) alts,
    (forall x, In x alts -> fst (ev (strip x)) = None) -> forall n, fst (first_found val ev alts n) = None.
Proof. exact TALESEvalFacts.first_found_none. Qed.
Print Assumptions C17_tales_alternation_none.

(* not: of a missing path is true; of a value it is the negation of its truth *)
Theorem C17_tales_not :
  forall (val : Type) (v_false v_true : val) (is_none is_default truthy : val -> bool) (ev : str -> result val) e,
    (fst (ev e) = None -> fst (eval_not val v_false v_true is_none is_default truthy ev e) = Some v_true) /\
    (forall v, fst (ev e) = Some v -> is_none v = false -> is_default v = false ->
       fst (eval_not val v_false v_true is_none is_default truthy ev e) = Some (if truthy v then v_false else v_true)).
Proof. exact TALESEvalFacts.not_law. Qed.
Print Assumptions C17_tales_not.

(* exists: / nocall: look the path up without calling its value.  `strip1` = the first alternative is
   stripped like the others (the repaired code, finding exists-nocall-first-alternative); first_alt true a = strip a *)
Theorem C17_tales_exists_nocall :
  forall (val : Type) (v_false v_true : val) (truthy : val -> bool) (traverse : str -> bool -> option val)
         (strip1 : bool) (ev : str -> result val) p, mem_N BAR p = false ->
    fst (eval_exists val v_false v_true truthy traverse strip1 ev p) =
      Some (match traverse (first_alt strip1 p) false with Some _ => v_true | None => v_false end) /\
    fst (eval_nocall val traverse strip1 ev p) = traverse (first_alt strip1 p) false.
Proof. exact TALESEvalFacts.exists_nocall_law. Qed.
Print Assumptions C17_tales_exists_nocall.

(* `exists:a | b`, `nocall:a | b` (repaired code): a first alternative that exists decides, whatever blanks
   surround it; otherwise nocall: takes the first of the remaining expressions that exists *)
Theorem C17_tales_exists_nocall_alternation :
  forall (val : Type) (v_false v_true : val) (truthy : val -> bool) (traverse : str -> bool -> option val)
         (ev : str -> result val) expr a r, split_on BAR expr = a :: r ->
    (forall v, traverse (strip a) false = Some v ->
       fst (eval_exists val v_false v_true truthy traverse true ev expr) = Some v_true /\
       fst (eval_nocall val traverse true ev expr) = Some v) /\
    (traverse (strip a) false = None ->
       fst (eval_nocall val traverse true ev expr) = fst (first_found val ev r 0%nat)).
Proof. exact TALESEvalFacts.exists_nocall_alternation_repaired. Qed.
Print Assumptions C17_tales_exists_nocall_alternation.

(* the pinned code (the first alternative keeps its trailing blank) does not find a path that exists *)
Theorem C17_tales_exists_nocall_refuted :
  exists (traverse : str -> bool -> option bool) (ev : str -> result bool) (expr a : str) (r : list str),
    split_on BAR expr = a :: r /\ traverse (strip a) false = Some true /\
    fst (eval_nocall bool traverse false ev expr) = None /\
    fst (eval_nocall bool traverse true ev expr) = Some true /\
    fst (eval_exists bool false true (fun b => b) traverse false ev expr) = Some false /\
    fst (eval_exists bool false true (fun b => b) traverse true ev expr) = Some true.
Proof. exact TALESEvalFacts.first_alt_pinned_refuted. Qed.
Print Assumptions C17_tales_exists_nocall_refuted.

(* ---- termination: enough fuel exists ----
   For every well-formed program in which no sub-template can be called (no macros, no slot fillers:
   METAL unused) and for ALL data decisions (every tal:repeat runs over a finite sequence chosen by
   the data, one item per loop-back), the interpreter reaches the end of the program after finitely many
   steps, with the scopes restored.  With macro calls termination does not hold in general (a macro
   may use itself); C18_context_restored covers every terminating run there. *)
Theorem C17_vm_terminates :
  forall (p : program) (t : symtab), wf_program p t [] = true -> prog_slots p = [] ->
  forall (D : Type) (o_cond : D -> cmd -> bool) (o_rep : D -> cmd -> rep_dec) (o_val : D -> cmd -> val_dec)
         (o_mac : D -> cmd -> mac_dec) (o_upd : D -> nat -> cmd -> D) (c : ctx) (d : D), exists fuel mf,
    vm_run p t (all_subs p []) D o_cond o_rep o_val o_mac o_upd fuel c d = Done mf /\
    c_sc (cx D mf) = c_sc c /\ sstack D mf = [] /\ pc D mf = length p.
Proof. exact TALVMTerm.terminates_without_metal. Qed.
Print Assumptions C17_vm_terminates.

Theorem C17_vm_terminates_compiled :
  forall (es : list event) (p : program) (t : symtab), compile repaired es = COk (p, (t, [])) -> prog_slots p = [] ->
  forall (D : Type) (o_cond : D -> cmd -> bool) (o_rep : D -> cmd -> rep_dec) (o_val : D -> cmd -> val_dec)
         (o_mac : D -> cmd -> mac_dec) (o_upd : D -> nat -> cmd -> D) (c : ctx) (d : D), exists fuel mf,
    vm_run p t (all_subs p []) D o_cond o_rep o_val o_mac o_upd fuel c d = Done mf /\
    c_sc (cx D mf) = c_sc c /\ sstack D mf = [] /\ pc D mf = length p.
Proof. exact TALVMTerm.terminates_compiled. Qed.
Print Assumptions C17_vm_terminates_compiled.

(* ---- compiler + interpreter against the specification: the TAL/METAL-free fragment ----
   For every variant of the compiler (pinned ones included) and every event stream without TAL/METAL
   attributes, the expansion is the serialisation of the event stream and the context is untouched.
   (For templates WITH tal: statements see C17_compiler_correct at the end of this file.) *)
Theorem C17_compiler_correct_tal_free :
  forall v es p t m c, forallb tal_free_event es = true -> compile v es = COk (p, (t, m)) ->
    exists mf, expand_static p t m 2 c = Done mf /\ dat str mf = passthrough_text v es /\ cx str mf = c.
Proof. exact TALOutFacts.passthrough_expand. Qed.
Print Assumptions C17_compiler_correct_tal_free.

(* ---- beyond the TAL-free fragment, stage 1: condition, content | replace, attributes, omit-tag ----
   Model/TALSpec.v gives (1) the data side of the interpreter (output file, outputTag, original and
   current attributes, tagContent, their save/restore) as an instance of the abstract VM and (2) a
   tree-walking specification: an element is a tree node, its statements are applied in TAL's
   priority order to a record (rendered?, tags shown?, content, attributes), then the node is
   written — no program counter, no jumps, no scope stack.  For EVERY program that reads back as a
   forest f (parse_forest: balanced, statements in priority order, symbols pointing at the owning end
   tag — what C17_wf_program guarantees for compiled programs), every evaluator of expressions and
   every context: the expansion terminates, has written exactly spec_forest f, and has restored the
   data stack, the scopes and the scope stack.  This is the statement "the jump / flag machinery of the
   interpreter implements the order of operations".
   Still missing for the full C17_compiler_correct: tal:define and tal:repeat (the evaluator then
   depends on a changing context), METAL, and the proof that parse_forest (compile (events t)) is the
   tree t itself (today: chk_compile + chk_spec compare with the real compiler and the real expansion
   on every run, and the differential oracle covers all statements). *)
Theorem C17_expand_spec_stage1_partial :
  forall (val : Type) (eval : str -> list (str * str) -> val) (v_nothing v_default v_truth : val -> bool)
         (v_text : val -> str) (p : program) (t : symtab) (f : list TALSpec.tnode),
    TALSpec.parse_forest (S (List.length p)) t 0 p = Some (f, []) ->
    forall c, exists fuel mf,
      expand1 val eval v_nothing v_default v_truth v_text p t fuel c = Done mf /\
      TALSpec.d_out (dat (TALSpec.dstate val) mf) = TALSpec.spec_forest val eval v_nothing v_default v_truth v_text f /\
      TALSpec.d_stack (dat (TALSpec.dstate val) mf) = [] /\
      c_sc (cx (TALSpec.dstate val) mf) = c_sc c /\ sstack (TALSpec.dstate val) mf = [] /\ pc (TALSpec.dstate val) mf = List.length p.
Proof. exact TALSpecFacts.expand_spec_parsed. Qed.
Print Assumptions C17_expand_spec_stage1_partial.

(* ---- all six TAL statements: define, condition, repeat, content | replace, attributes, omit-tag ----
   Model/TALSpecFull.v: the environment (simpleTALES.Context: locals, globals, local stack, repeat map,
   repeat variables and their positions) is an ABSTRACT type E with abstract operations eval, push / pop
   locals, set local / global, add / advance / remove a repeat variable; values are abstract (is nothing,
   is default, truth, text, len).  The data instance of the VM performs these operations as cmdDefine,
   cmdRepeat, cmdEndTagEndScope do; the specification is a tree walk: define statements one after the
   other, a false condition or an empty repeat ends the element, tal:repeat writes one instance per item
   (each from the element's own attributes, the environment threaded through the instances and
   through the children), local defines are popped when the element ends.
   For EVERY environment type and operations, every program that reads back as a forest f, every
   context and initial environment: the expansion terminates, has written exactly what the
   specification writes, has left exactly the environment the specification leaves (the same
   operations in the same order), with data stack, scopes and scope stack restored.
   `_partial`: METAL is not in the data instance / specification (macro expansion is compared with the
   reference evaluator and followed by the abstract VM in Coq on every run, Corr/K17.chk_trace).  The link
   from the SOURCE document to the forest f is C17_compiler_correct below. *)
Theorem C17_expand_spec_partial :
  forall (val E : Type) (eval : E -> str -> list (str * str) -> val) (e_push e_pop : E -> E)
         (e_local e_global : E -> str -> val -> E) (e_add_repeat : E -> str -> val -> E)
         (e_next_repeat e_remove_repeat : E -> str -> E) (v_nothing v_default v_truth : val -> bool)
         (v_text : val -> str) (v_len : val -> option nat) (p : program) (t : symtab) (f : list TALSpecFull.tnode),
    TALSpecFull.parse_forest (S (List.length p)) t 0 p = Some (f, []) ->
    forall (c : ctx) (env : E), exists fuel mf,
      expand_tal val E eval e_push e_pop e_local e_global e_add_repeat e_next_repeat e_remove_repeat
                 v_nothing v_default v_truth v_text v_len p t fuel c env = Done mf /\
      TALSpecFull.d_out (dat (TALSpecFull.dstate val E) mf) =
        fst (TALSpecFull.spec_forest val E eval e_push e_pop e_local e_global e_add_repeat e_next_repeat e_remove_repeat
                                     v_nothing v_default v_truth v_text v_len env f) /\
      TALSpecFull.d_env (dat (TALSpecFull.dstate val E) mf) =
        snd (TALSpecFull.spec_forest val E eval e_push e_pop e_local e_global e_add_repeat e_next_repeat e_remove_repeat
                                     v_nothing v_default v_truth v_text v_len env f) /\
      TALSpecFull.d_stack (dat (TALSpecFull.dstate val E) mf) = [] /\
      c_sc (cx (TALSpecFull.dstate val E) mf) = c_sc c /\ sstack (TALSpecFull.dstate val E) mf = [] /\
      pc (TALSpecFull.dstate val E) mf = List.length p.
Proof. exact TALSpecFullFacts.expand_tal_spec. Qed.
Print Assumptions C17_expand_spec_partial.

(* ---- compiler correctness for TAL (all six statements, no METAL) ----
   A template is a document tree (Model/TALDoc.v): character data, comments, declarations, processing
   instructions and elements with their attributes as written and their children; doc_events is the event
   stream of the well-nested document (start tag, children, end tag; one event for <x/> and for HTML's empty
   elements); doc_forest is the tree the specification walks: markup without tal: statements is literal
   text, an element with tal: statements carries its attributes and its statements parsed from the attribute
   values, in TAL's order of operations — no program, no symbols, no jumps.
   For EVERY document without metal: statements that the repaired compiler accepts, every environment type
   and operations, every context and initial environment: compiling the event stream and running the
   interpreter terminates, writes exactly what the tree-walking specification writes for the SOURCE tree,
   leaves exactly the environment the specification leaves (same Context operations in the same order), and
   restores data stack, scopes and scope stack.  (The compiler merges adjacent OUTPUT commands, so the
   program reads back as the document's forest with adjacent literal chunks joined; the proof carries
   "same specification" through the compilation.)
   Tied to the real code on every run by Corr/K17: chk_compile (model compiler = real compiler on the real
   parser's events), chk_doc (doc_events of the generator's tree = the real parser's events; spec_forest of
   doc_forest = the real output and the real number of Context operations), chk_spec_full, chk_trace.
   Not covered: metal: statements (hypothesis no_metal), xmlns re-declaration of the prefixes (the model
   compiler answers Unsupported), documents that are not well nested (the compiler's implicit closing of
   unclosed plain elements is in the model and in C17_wf_program, not in this theorem). *)
Theorem C17_compiler_correct :
  forall (val E : Type) (eval : E -> str -> list (str * str) -> val) (e_push e_pop : E -> E)
         (e_local e_global : E -> str -> val -> E) (e_add_repeat : E -> str -> val -> E)
         (e_next_repeat e_remove_repeat : E -> str -> E) (v_nothing v_default v_truth : val -> bool)
         (v_text : val -> str) (v_len : val -> option nat)
         (doc : list dnode) (p : program) (t : symtab) (m : macrotab),
    forallb no_metal doc = true -> compile repaired (doc_events doc) = COk (p, (t, m)) ->
    m = [] /\
    forall (c : ctx) (env : E), exists fuel mf,
      expand_tal val E eval e_push e_pop e_local e_global e_add_repeat e_next_repeat e_remove_repeat
                 v_nothing v_default v_truth v_text v_len p t fuel c env = Done mf /\
      TALSpecFull.d_out (dat (TALSpecFull.dstate val E) mf) =
        fst (TALSpecFull.spec_forest val E eval e_push e_pop e_local e_global e_add_repeat e_next_repeat e_remove_repeat
                                     v_nothing v_default v_truth v_text v_len env (doc_forest doc)) /\
      TALSpecFull.d_env (dat (TALSpecFull.dstate val E) mf) =
        snd (TALSpecFull.spec_forest val E eval e_push e_pop e_local e_global e_add_repeat e_next_repeat e_remove_repeat
                                     v_nothing v_default v_truth v_text v_len env (doc_forest doc)) /\
      TALSpecFull.d_stack (dat (TALSpecFull.dstate val E) mf) = [] /\
      c_sc (cx (TALSpecFull.dstate val E) mf) = c_sc c /\ sstack (TALSpecFull.dstate val E) mf = [] /\
      pc (TALSpecFull.dstate val E) mf = List.length p.
Proof. exact TALDocFacts.compiler_correct. Qed.
Print Assumptions C17_compiler_correct.

(* non-vacuity: <ul tal:define="x s1"><li class="c" tal:content="i/k | default" tal:repeat="i l1">d</li><br>t<b>u</b></ul>
   is accepted, has no METAL, and compiles to an 11-command program *)
Example C17_compiler_correct_example :
  forallb no_metal example_doc = true /\ exists p t, compile repaired (doc_events example_doc) = COk (p, (t, [])) /\ List.length p = 11%nat.
Proof. exact TALDocFacts.compiler_correct_example_short. Qed.
