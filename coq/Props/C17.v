(* C17 — simpleTAL executes templates according to TAL/TALES semantics; compiled programs
   are structurally well formed.  Property theorems only. *)
From Coq Require Import String.
From Coq Require Import Sorted.
From PG Require Import Lib.Str Model.TALES Proofs.TALESFacts Model.TALProg Model.TALProgSpec Proofs.TALProgFacts.
Local Open Scope N_scope.

(* ---- compiled programs are structurally well formed ----
   wf_program is evaluated inside Coq on the REAL compiler's commandList / symbolTable / macros
   for every generated template (Corr/K17.chk_wf); what it establishes: *)
Theorem C17_wf_program_sound :
  forall (p : program) (t : symtab) (m : macrotab), wf_program p t m = true ->
    (* scopes balanced and properly nested, commands in priority order, symbols -> owning end tag *)
    wfitems t 0 p /\
    (* every macro and every slot filler is exactly one element of the program *)
    (forall s, In s (all_subs p m) -> valid_sub p t s).
Proof. exact TALProgFacts.wf_program_sound. Qed.
Print Assumptions C17_wf_program_sound.

(* commands on one element appear in opcode = TAL priority order (METAL first), and every jump
   target is the ENDTAG_ENDSCOPE of the element that owns the command *)
Theorem C17_priority :
  forall (t : symtab) (o : nat) (el : list cmd), wfelem t o el ->
    exists sc head st body en,
      el = sc :: head ++ st :: body ++ [en] /\ StronglySorted rank_lt head /\
      (forall c s, In c head -> cmd_sym c = Some s ->
                   lookup_sym t s = Some (o + 2 + length head + length body)%nat) /\
      nth_error el (2 + length head + length body) = Some en /\ is_etag en = true.
Proof. exact TALProgFacts.wfelem_priority. Qed.
Print Assumptions C17_priority.

(* non-vacuity: the real program of
   <li tal:omit-tag="" tal:attributes="id i" tal:content="i" tal:repeat="i l" tal:condition="l" tal:define="l l1">x</li>
   (statements written in reverse order in the source) *)
Example C17_wf_example :
  wf_program
    [CStartScope [] []; CDefine [(true, (lit "l"%string, lit "l1"%string))]; CCondition (lit "l"%string) 2%nat;
     CRepeat (lit "i"%string) (lit "l"%string) 2%nat; CContent false false (lit "i"%string) 2%nat;
     CAttributes [(lit "id"%string, lit "i"%string)]; COmitTag (lit "default"%string);
     CStartTag (lit "li"%string) false; COutput (lit "x"%string); CEndTagEndScope (lit "li"%string) false false]
    [(2%nat, 9%nat)] [] = true /\
  (* ... and the same commands in source order are rejected *)
  wf_program
    [CStartScope [] []; COmitTag (lit "default"%string); CAttributes [(lit "id"%string, lit "i"%string)];
     CStartTag (lit "li"%string) false; COutput (lit "x"%string); CEndTagEndScope (lit "li"%string) false false]
    [(2%nat, 5%nat)] [] = false.
Proof. vm_compute. split; reflexivity. Qed.

(* ---- repeat variables (simpleTALES.RepeatVariable) ---- *)
Theorem C17_tales_repeat_number : forall pos, rv_number pos = rv_index pos + 1.
Proof. exact TALESFacts.number_is_index_plus_one. Qed.
Print Assumptions C17_tales_repeat_number.

Theorem C17_tales_repeat_even_odd :
  forall pos, rv_even pos + rv_odd pos = 1 /\ (rv_even pos = 1 <-> pos mod 2 = 0) /\ (rv_odd pos = 1 <-> pos mod 2 = 1).
Proof. exact TALESFacts.even_odd_complementary. Qed.
Print Assumptions C17_tales_repeat_even_odd.

Theorem C17_tales_repeat_start : forall pos, rv_start pos = 1 <-> pos = 0.
Proof. exact TALESFacts.start_iff_first. Qed.
Print Assumptions C17_tales_repeat_start.

Theorem C17_tales_repeat_end : forall pos len, rv_end pos len = 1 <-> (0 < len /\ pos = len - 1).
Proof. exact TALESFacts.end_iff_last. Qed.
Print Assumptions C17_tales_repeat_end.

(* `letter` writes the position as a base-26 numeral with the digits a..z (as Zope's iterator
   does): reading the numeral back gives the position, for every position; hence injective *)
Theorem C17_tales_repeat_letter : forall pos, parse_letter (rv_letter pos) = Some pos.
Proof. exact TALESFacts.letter_inverse. Qed.
Print Assumptions C17_tales_repeat_letter.

Theorem C17_tales_repeat_letter_injective : forall a b, rv_letter a = rv_letter b -> a = b.
Proof. exact TALESFacts.letter_injective. Qed.
Print Assumptions C17_tales_repeat_letter_injective.

(* `roman` at position n is a numeral whose value is n+1, for every n < 3999 (finite sweep) *)
Theorem C17_tales_repeat_roman : forall n, n < 3999 -> parse_roman (rv_roman n) = Some (n + 1).
Proof. exact TALESFacts.roman_inverse. Qed.
Print Assumptions C17_tales_repeat_roman.

Example C17_tales_example :
  rv_letter 27 = lit "bb"%string /\ rv_Roman 1986 = lit "MCMLXXXVII"%string /\ rv_roman 4000 = lit " "%string /\
  rv_end 2 3 = 1 /\ rv_end 0 0 = 0.
Proof. vm_compute. repeat split; reflexivity. Qed.
