(* C17 — simpleTAL executes templates according to TAL/TALES semantics; compiled programs
   are structurally well formed.  Property theorems only. *)
From Coq Require Import String.
From PG Require Import Lib.Str Model.TALES Proofs.TALESFacts.
Local Open Scope N_scope.

(* ---- repeat variables (simpleTALES.RepeatVariable) ---- *)
Theorem C17_tales_repeat_number : forall pos, rv_number pos = rv_index pos + 1.
Proof. exact TALESFacts.number_is_index_plus_one. Qed.
Print Assumptions C17_tales_repeat_number.

Theorem C17_tales_repeat_even_odd :
  forall pos, rv_even pos + rv_odd pos = 1 /\ (rv_even pos = 1 <-> pos mod 2 = 0) /\ (rv_odd pos = 1 <-> pos mod 2 = 1).
Proof. exact TALESFacts.even_odd_complementary. Qed.
Print Assumptions C17_tales_repeat_even_odd.

Theorem C17_tales_repeat_start : forall pos, rv_start pos = 1 <-> pos = 0.
Proof. exact TALESFacts.start_iff_first. Qed.
Print Assumptions C17_tales_repeat_start.

Theorem C17_tales_repeat_end : forall pos len, rv_end pos len = 1 <-> (0 < len /\ pos = len - 1).
Proof. exact TALESFacts.end_iff_last. Qed.
Print Assumptions C17_tales_repeat_end.

(* `letter` writes the position as a base-26 numeral with the digits a..z (as Zope's iterator
   does): reading the numeral back gives the position, for every position; hence injective *)
Theorem C17_tales_repeat_letter : forall pos, parse_letter (rv_letter pos) = Some pos.
Proof. exact TALESFacts.letter_inverse. Qed.
Print Assumptions C17_tales_repeat_letter.

Theorem C17_tales_repeat_letter_injective : forall a b, rv_letter a = rv_letter b -> a = b.
Proof. exact TALESFacts.letter_injective. Qed.
Print Assumptions C17_tales_repeat_letter_injective.

(* `roman` at position n is a numeral whose value is n+1, for every n < 3999 (finite sweep) *)
Theorem C17_tales_repeat_roman : forall n, n < 3999 -> parse_roman (rv_roman n) = Some (n + 1).
Proof. exact TALESFacts.roman_inverse. Qed.
Print Assumptions C17_tales_repeat_roman.

Example C17_tales_example :
  rv_letter 27 = lit "bb"%string /\ rv_Roman 1986 = lit "MCMLXXXVII"%string /\ rv_roman 4000 = lit " "%string /\
  rv_end 2 3 = 1 /\ rv_end 0 0 = 0.
Proof. vm_compute. repeat split; reflexivity. Qed.
