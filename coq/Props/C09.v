(* C09 — gophermap files are rendered line for line as documented.
   Property theorems only; each is closed by `exact <lemma>` and followed by
   Print Assumptions.  Model: Model/Gophermap.v (the code), Model/GophermapSpec.v
   (the documents).  `fs_exists` / `populate` stand for the file system
   (vfs.exists, GopherEntry.populatefromvfs) and are universally quantified. *)
From Coq Require Import String ZArith.
From PG Require Import Lib.Str Lib.PyInt Model.Selector Model.Entry Model.Render0 Model.Gophermap Model.GophermapSpec
  Proofs.C09Facts Corr.K09 Proofs.C09Lookup.
Local Open Scope N_scope.

(* ---- exactly one entry per line, in file order ---- *)
Theorem C09_one_per_line :
  forall fs_exists populate base lines es,
    gophermap_entries fs_exists populate base lines = Ok es ->
    List.length es = List.length lines /\
    forall i l, nth_error lines i = Some l ->
      exists e, nth_error es i = Some e /\ classify fs_exists populate base l = Ok e.
Proof. exact C09Facts.one_per_line. Qed.
Print Assumptions C09_one_per_line.

(* a listing exists as soon as every line classifies ... *)
Theorem C09_listing_total :
  forall fs_exists populate base lines,
    (forall l, In l lines -> exists e, classify fs_exists populate base l = Ok e) ->
    exists es, gophermap_entries fs_exists populate base lines = Ok es.
Proof. exact C09Facts.all_ok_entries. Qed.
Print Assumptions C09_listing_total.

(* ... and prepare() raises exactly when some line raises: the exception is that
   of the FIRST such line *)
Theorem C09_raise_first_bad_line :
  forall fs_exists populate base lines x,
    gophermap_entries fs_exists populate base lines = Raise x <->
    exists pre bad post, lines = pre ++ bad :: post /\
      classify fs_exists populate base bad = Raise x /\
      Forall (fun l => exists e, classify fs_exists populate base l = Ok e) pre.
Proof. exact C09Facts.raise_first_bad_line. Qed.
Print Assumptions C09_raise_first_bad_line.

(* the lines ARE the file: cutting at LF loses and invents nothing *)
Theorem C09_lines_partition :
  forall content,
    concat (lines_keepends content) = content /\
    Forall (fun l => l <> [] /\ mem_N 10 (removelast l) = false) (lines_keepends content).
Proof. exact C09Facts.lines_partition. Qed.
Print Assumptions C09_lines_partition.

(* ---- on well-formed lines the classifier is the documents' reading ---- *)
(* for ALL directories, lines, file systems: the entry is the documented one,
   then looked up in the file system when it is a link to this server *)
Theorem C09_spec :
  forall fs_exists populate dir line,
    wf_gmline line = true ->
    classify fs_exists populate (gm_selectorbase dir) line =
    Ok (populate_local fs_exists populate (spec_entry dir line)).
Proof. exact C09Facts.classify_wf. Qed.
Print Assumptions C09_spec.

(* type, description, selector, host and port are the documented ones whatever
   the file system holds; Gopher+ support is flagged exactly for existing local targets *)
Theorem C09_spec_fields :
  forall fs_exists populate dir line,
    populate_sound populate -> wf_gmline line = true ->
    exists e, classify fs_exists populate (gm_selectorbase dir) line = Ok e /\
      e_type e = e_type (spec_entry dir line) /\
      e_name e = e_name (spec_entry dir line) /\
      e_selector e = e_selector (spec_entry dir line) /\
      e_host e = e_host (spec_entry dir line) /\
      e_port e = e_port (spec_entry dir line) /\
      e_gopherpsupport e = expected_gplus fs_exists (spec_entry dir line).
Proof. exact C09Facts.classify_wf_fields. Qed.
Print Assumptions C09_spec_fields.

(* whole files, directories and (repaired code) "*.gophermap" files alike *)
Theorem C09_spec_listing :
  forall fs_exists populate kind sel content,
    Forall (fun l => wf_gmline l = true) (lines_keepends content) ->
    gophermap_prepare fs_exists populate (gm_linkbase_fixed kind sel) content =
    Ok (map (fun l => populate_local fs_exists populate (spec_entry (listing_dir kind sel) l))
            (lines_keepends content)).
Proof. exact C09Facts.spec_listing. Qed.
Print Assumptions C09_spec_listing.

(* for everything but a "*.gophermap" file the pinned code computes the same prefix *)
Theorem C09_linkbase_pinned_dirs :
  forall kind sel, gm_is_mapfile kind sel = false ->
    gm_linkbase_pinned kind sel = gm_linkbase_fixed kind sel.
Proof. exact C09Facts.linkbase_pinned_not_mapfile. Qed.
Print Assumptions C09_linkbase_pinned_dirs.

(* ---- the same gophermap drives the listing in every protocol ---- *)
(* prepare() has no protocol among its inputs; whatever renderer a protocol
   brings, writedir emits the rendering of the i-th LINE's entry as i-th item *)
Theorem C09_all_protocols :
  forall fs_exists populate base lines es,
    gophermap_entries fs_exists populate base lines = Ok es ->
    forall (render : entry -> option str) (pre post : str),
      writedir pre post render es =
        option_map (fun items => pre ++ concat items ++ post) (sequence (map render es)) /\
      List.length (map render es) = List.length lines /\
      forall i l, nth_error lines i = Some l ->
        exists e, classify fs_exists populate base l = Ok e /\
                  nth_error (map render es) i = Some (render e).
Proof. exact C09Facts.all_protocols. Qed.
Print Assumptions C09_all_protocols.

(* abstracts: with both options off nothing but the entries is written; with abstract_entries on
   every entry is followed by the lines of ITS OWN abstract and by nothing else *)
Theorem C09_writedir_abstracts_off :
  forall pre post render listed es,
    writedir_abs false false pre post render listed es = writedir pre post render es.
Proof. exact C09Facts.writedir_abs_off. Qed.
Print Assumptions C09_writedir_abstracts_off.

Theorem C09_writedir_entry_abstracts :
  forall render es out,
    writedir_abs_loop render true out es =
    option_map (fun items => out ++ concat items) (sequence (map (entry_with_abstract render) es)).
Proof. exact C09Facts.writedir_abs_loop_on. Qed.
Print Assumptions C09_writedir_entry_abstracts.

(* Gopher0: the menu is the concatenation of one rfc1436 line per gophermap line
   (every entry has a name, so renderobjinfo cannot fail) *)
Theorem C09_gopher0_menu :
  forall fs_exists populate base lines es srv port,
    populate_sound populate ->
    gophermap_entries fs_exists populate base lines = Ok es ->
    exists items,
      sequence (map (gopher0_line srv port) es) = Some items /\
      writedir [] [] (gopher0_line srv port) es = Some (concat items) /\
      List.length items = List.length lines.
Proof. exact C09Facts.gopher0_menu. Qed.
Print Assumptions C09_gopher0_menu.

(* the file-system hypothesis is satisfiable: the modelled part of populatefromfs meets it *)
Theorem C09_populate_core_sound :
  forall fallback_type, populate_sound (populate_core fallback_type).
Proof. exact C09Facts.populate_core_sound. Qed.
Print Assumptions C09_populate_core_sound.

(* ---- recorded: what the pinned code does OUTSIDE well-formed input ---- *)
(* these lines are malformed, so they are no counterexamples to C09; each takes
   the whole listing down (C03/C12 territory) *)
Theorem C09_empty_first_field_refuted :
  classify no_fs id_pop [] (T9 ++ lit "foo"%string ++ NL) = Raise IndexError.
Proof. exact C09Facts.empty_first_field_raises. Qed.
Print Assumptions C09_empty_first_field_refuted.

Theorem C09_empty_selector_refuted :
  classify no_fs id_pop [] (lit "1"%string ++ T9 ++ NL) = Raise IndexError.
Proof. exact C09Facts.empty_selector_raises. Qed.
Print Assumptions C09_empty_selector_refuted.

Theorem C09_bad_port_refuted :
  classify no_fs id_pop []
    (lit "1a"%string ++ T9 ++ lit "/x"%string ++ T9 ++ lit "h"%string ++ T9 ++ lit "abc"%string ++ NL)
  = Raise ValueError.
Proof. exact C09Facts.bad_port_raises. Qed.
Print Assumptions C09_bad_port_refuted.

Theorem C09_bad_line_aborts_listing_refuted :
  exists x, gophermap_prepare no_fs id_pop []
    (lit "hello"%string ++ NL ++ lit "1"%string ++ T9 ++ NL ++ lit "0a"%string ++ T9 ++ lit "/a"%string ++ NL)
  = Raise x.
Proof. exact C09Facts.one_bad_line_aborts_listing. Qed.
Print Assumptions C09_bad_line_aborts_listing_refuted.

(* PINNED code, "*.gophermap" FILE: a well-formed relative link is resolved
   below the file itself ("/d/x.gophermap/a.txt", which cannot exist) instead of
   the directory the file is in ("/d/a.txt") *)
Theorem C09_mapfile_relative_refuted :
  let sel := lit "/d/x.gophermap"%string in
  let line := lit "0a"%string ++ T9 ++ lit "a.txt"%string ++ NL in
  gm_canhandle NFile false sel = true /\ wf_gmline line = true /\
  option_map e_selector
    (match classify no_fs id_pop (gm_linkbase_pinned NFile sel) line with Ok e => Some e | Raise _ => None end)
    = Some (lit "/d/x.gophermap/a.txt"%string) /\
  e_selector (spec_entry (listing_dir NFile sel) line) = lit "/d/a.txt"%string.
Proof. exact C09Facts.mapfile_relative_pinned. Qed.
Print Assumptions C09_mapfile_relative_refuted.

(* not well-formed, not raising, but not the literal reading either *)
Theorem C09_empty_description_renamed :
  option_map e_name
    (match classify all_fs (populate_core (fun _ => lit "0"%string)) []
             (lit "1"%string ++ T9 ++ lit "/docs/foo"%string ++ NL)
     with Ok e => Some e | Raise _ => None end)
  = Some (Some (lit "foo"%string)).
Proof. exact C09Facts.empty_description_renamed. Qed.
Print Assumptions C09_empty_description_renamed.

Theorem C09_info_indentation_lost :
  let line := lit "   centred"%string ++ NL in
  classify no_fs id_pop [] line = Ok (getinfoentry (lit "centred"%string)) /\
  spec_entry (lit "/"%string) line = info_entry (lit "   centred"%string) /\
  wf_gmline line = false.
Proof. exact C09Facts.info_indentation_lost. Qed.
Print Assumptions C09_info_indentation_lost.

Theorem C09_field_padding_dropped :
  classify no_fs id_pop [] (lit " 1foo "%string ++ T9 ++ lit " bar "%string ++ [13; 10]) =
  classify no_fs id_pop [] (lit "1foo"%string ++ T9 ++ lit "bar"%string ++ NL).
Proof. exact C09Facts.field_padding_dropped. Qed.
Print Assumptions C09_field_padding_dropped.

(* non-vacuity: Bucktooth's own example ("1Lots of stuff<TAB>stuff" inside /lotsa
   on gopher.somenetwork.com:7070), info, default selector, remote host + port,
   URL: selector, blank line — all well-formed, read as documented *)
Example C09_example :
  let dir := lit "/lotsa"%string in
  let l1 := lit "Welcome to the menu"%string ++ NL in
  let l2 := lit "1Lots of stuff"%string ++ T9 ++ lit "stuff"%string ++ [13; 10] in
  let l3 := lit "1src"%string ++ T9 ++ NL in
  let l4 := lit "1home"%string ++ T9 ++ lit "/"%string ++ T9 ++ lit "gopher.ptloma.edu"%string ++ T9 ++ lit "70"%string in
  let l5 := lit "hweb"%string ++ T9 ++ lit "URL:http://example.org/"%string ++ NL in
  forallb wf_gmline [l1; l2; l3; l4; l5; NL] = true /\
  spec_item dir l1 = GInfo (lit "Welcome to the menu"%string) /\
  spec_item dir l2 = GLink 49 (lit "Lots of stuff"%string) (lit "/lotsa/stuff"%string) None None /\
  spec_item dir l3 = GLink 49 (lit "src"%string) (lit "/lotsa/src"%string) None None /\
  spec_item dir l4 = GLink 49 (lit "home"%string) (lit "/"%string) (Some (lit "gopher.ptloma.edu"%string)) (Some 70%Z) /\
  spec_item dir l5 = GLink 104 (lit "web"%string) (lit "URL:http://example.org/"%string) None None /\
  spec_item dir NL = GInfo [] /\
  option_map (map (gopher0_line (lit "gopher.somenetwork.com"%string) 7070%Z))
    (match gophermap_entries no_fs id_pop (gm_selectorbase dir) [l2] with Ok es => Some es | Raise _ => None end)
  = Some [Some (lit "1Lots of stuff"%string ++ T9 ++ lit "/lotsa/stuff"%string ++ T9 ++
                lit "gopher.somenetwork.com"%string ++ T9 ++ lit "7070"%string ++ [13; 10])].
Proof. exact C09Facts.wf_example. Qed.

(* ---- the repaired lookup (D34, /repo 10ac772): a link whose selector the request filter refuses (`../../x`,
   `/../x`, `a//b` ...) is listed as written and NOTHING is looked up for it -- whatever the file system holds, inside
   an archive or not; so the entry cannot depend on anything outside the root ---- *)
Theorem C09_insecure_link_not_looked_up :
  forall existing populate e,
    is_secure (e_selector e) = false -> populate_local (k_exists existing) populate e = e.
Proof. exact insecure_link_not_looked_up. Qed.
Print Assumptions C09_insecure_link_not_looked_up.

Theorem C09_insecure_link_not_looked_up_zip :
  forall zipname members outside populate e,
    is_secure (e_selector e) = false -> populate_local (k_exists_zip zipname members outside) populate e = e.
Proof. exact insecure_link_not_looked_up_zip. Qed.
Print Assumptions C09_insecure_link_not_looked_up_zip.

Theorem C09_insecure_link_independent_of_the_file_system :
  forall ex1 ex2 populate1 populate2 e,
    is_secure (e_selector e) = false ->
    populate_local (k_exists ex1) populate1 e = populate_local (k_exists ex2) populate2 e.
Proof. exact insecure_link_independent. Qed.
Print Assumptions C09_insecure_link_independent_of_the_file_system.
