(* C07 — a listing is exactly the visible entries, once each, in a stable order.
   Property theorems only.  Gen/Entrycmp.v (sgn, entrycmp) and Gen/Ignore.v (the
   shipped ignore pattern) are regenerated from /repo on every run.
   `fixes` (Model/UMN.v) selects pinned or repaired behaviour per defect; a
   theorem that needs a repair says so in its hypothesis. *)
From Coq Require Import ZArith Permutation String.
From PG Require Import Lib.Str Lib.Cmp Lib.Sort Lib.SortFacts Lib.Regex Gen.Entrycmp Gen.Ignore
  Model.Selector Model.DirEntry Model.UMN Model.Dir Proofs.DirFacts Proofs.C07Facts.
Local Open Scope N_scope.

(* the comparison function in the source IS the documented key order
   (numbered ascending, then unnumbered by title, then negative) *)
Theorem entrycmp_is_key_order :
  forall a x b y,
    entrycmp (Some a) x (Some b) y =
    Z_of_cmp (ekey_cmp (num_class x, (x, a)) (num_class y, (y, b))).
Proof. exact DirFacts.entrycmp_is_key_order. Qed.
Print Assumptions entrycmp_is_key_order.

(* including entries without a title (they compare greater than everything):
   what list.sort asks, `entrycmp a b < 0`, is "key a < key b" *)
Theorem entrycmp_lt_is_key_lt :
  forall e1 e2, entry_ltb e1 e2 = is_lt (ekey_cmp (entry_key e1) (entry_key e2)).
Proof. exact DirFacts.entry_ltb_key. Qed.
Print Assumptions entrycmp_lt_is_key_lt.

Theorem entry_order_total_preorder : total entry_leb /\ transitive entry_leb.
Proof. exact (conj DirFacts.entry_leb_total DirFacts.entry_leb_trans). Qed.
Print Assumptions entry_order_total_preorder.

(* any two stable sorts agree under a total preorder: whatever list.sort does
   internally, if it is a stable sort its result is the model's *)
Theorem stable_sort_unique :
  forall (A : Type) (leb : A -> A -> bool), total leb ->
  forall l l1 l2, is_stable_sort leb l l1 -> is_stable_sort leb l l2 -> l1 = l2.
Proof. exact (@SortFacts.stable_sort_unique). Qed.
Print Assumptions stable_sort_unique.

Theorem model_sort_is_a_stable_sort :
  forall (A : Type) (leb : A -> A -> bool), total leb -> transitive leb ->
  forall l, is_stable_sort leb l (isort leb l).
Proof. exact (@SortFacts.isort_is_stable_sort). Qed.
Print Assumptions model_sort_is_a_stable_sort.

(* ---------------- dir.DirHandler ---------------- *)
Theorem C07_exact :
  forall fx alts w enum l, dir_listing fx alts w enum = Ok l ->
    Permutation (map fst l) (filter (fun n => visible_dir alts w n && servable w n) enum) /\
    (NoDup enum -> NoDup (map fst l)).
Proof. exact C07Facts.dir_exact. Qed.
Print Assumptions C07_exact.

Theorem C07_entries_from_children :
  forall fx alts w enum l n e, dir_listing fx alts w enum = Ok l -> In (n, e) l ->
    exists ci, child_entry w n = Ok ci /\ ci_entry ci = e.
Proof. exact C07Facts.dir_entries_are_the_childrens. Qed.
Print Assumptions C07_entries_from_children.

Theorem C07_order_independent :
  forall fx alts w e1 e2, Permutation e1 e2 -> dir_listing fx alts w e1 = dir_listing fx alts w e2.
Proof. exact C07Facts.dir_order_independent. Qed.
Print Assumptions C07_order_independent.

Theorem C07_sorted_by_name :
  forall fx alts w enum l, dir_listing fx alts w enum = Ok l -> ssorted str_leb (map fst l).
Proof. exact C07Facts.dir_sorted. Qed.
Print Assumptions C07_sorted_by_name.

(* ---------------- UMN.UMNDirHandler (any link-file parser `plf`) ---------------- *)
Theorem C07_exact_umn :
  forall plf fx alts mode w enum l,
    NoDup enum -> umn_listing_gen plf fx alts mode w enum = Ok l ->
    exists links fes,
      umn_scan plf fx alts w (enum_order fx enum) [] [] =
        Ok (filter (visible_umn alts w) (enum_order fx enum), links) /\
      prep_entries (skip_of fx) (umn_child plf mode w)
        (sort_names (filter (visible_umn alts w) (enum_order fx enum))) = Ok fes /\
      Permutation (dir_names l)
        (filter (fun n => visible_umn alts w n && umn_listed plf mode w n &&
                          negb (hidden_by_link fx (dict_lookup (tag_origin fes)) links n)) enum) /\
      NoDup (dir_names l).
Proof. exact C07Facts.umn_exact. Qed.
Print Assumptions C07_exact_umn.

Theorem C07_nothing_else_umn :
  forall plf fx alts mode w enum l n,
    NoDup enum -> umn_listing_gen plf fx alts mode w enum = Ok l -> In n (dir_names l) ->
    In n enum /\ visible_umn alts w n = true /\ servable w n = true.
Proof. exact C07Facts.umn_nothing_else. Qed.
Print Assumptions C07_nothing_else_umn.

Theorem C07_sorted_umn :
  forall plf fx alts mode w enum l,
    umn_listing_gen plf fx alts mode w enum = Ok l -> ssorted oentry_leb l.
Proof. exact C07Facts.umn_sorted. Qed.
Print Assumptions C07_sorted_umn.

(* needs the repair of D11 (names iterated in sorted order) *)
Theorem C07_order_independent_umn :
  forall plf fx alts mode w e1 e2, fx_sorted_enum fx = true -> Permutation e1 e2 ->
    umn_listing_gen plf fx alts mode w e1 = umn_listing_gen plf fx alts mode w e2.
Proof. exact C07Facts.umn_order_independent. Qed.
Print Assumptions C07_order_independent_umn.

(* end to end for the repaired handler: link files, .cap files, extension stripping,
   merge and final sort included, with the real link-file parser *)
Theorem C07_order_independent_umn_full :
  forall fx alts mode w e1 e2, fx_sorted_enum fx = true -> Permutation e1 e2 ->
    umn_listing fx alts mode w e1 = umn_listing fx alts mode w e2.
Proof. exact C07Facts.umn_full_order_independent. Qed.
Print Assumptions C07_order_independent_umn_full.

Theorem C07_order_independent_umn_repaired :
  forall alts mode w e1 e2, Permutation e1 e2 ->
    umn_listing repaired alts mode w e1 = umn_listing repaired alts mode w e2.
Proof. exact C07Facts.umn_repaired_order_independent. Qed.
Print Assumptions C07_order_independent_umn_repaired.

(* a directory with two link files touching one entry and a .cap file on another:
   every enumeration order yields this one listing *)
Example C07_example_two_linkfiles :
  (forall e, Permutation two_links_enum e ->
     umn_listing repaired shipped_ignore StripNone two_links_world e =
     umn_listing repaired shipped_ignore StripNone two_links_world two_links_enum) /\
  exists l, umn_listing repaired shipped_ignore StripNone two_links_world two_links_enum = Ok l /\
            map (fun oe => (fst oe, e_name (snd oe), e_num (snd oe))) l =
            [(Some (lit "b.txt"%string), Some (lit "Bee"%string), Some 1%Z);
             (Some (lit "a.txt"%string), Some (lit "Second"%string), Some 2%Z)].
Proof. exact C07Facts.two_links_example. Qed.

(* hidden by metadata stays hidden (D25 repaired): whatever in the listing does not
   stand for a directory entry is the entry of a link block, and a block for ./name
   only gets there when that file was not dropped by its .cap file and the block
   is not itself a hide block *)
Theorem C07_cap_hidden_stays_hidden :
  forall plf fx alts mode w enum l e,
    fx_hidden_stays fx = true -> umn_listing_gen plf fx alts mode w enum = Ok l -> In (None, e) l ->
    exists files links le,
      umn_scan plf fx alts w (enum_order fx enum) [] [] = Ok (files, links) /\
      In le links /\ e = le_entry le /\
      (le_merge le = false \/
       (mem_str (e_selector e) (cap_dropped plf mode w (sort_names files)) = false /\
        link_hides fx (e_type e) = false)).
Proof. exact C07Facts.umn_link_entries. Qed.
Print Assumptions C07_cap_hidden_stays_hidden.

(* before that repair: fred is dropped by .cap/fred (Type=X) and listed all the same *)
Theorem C07_cap_hidden_relisted_refuted :
  exists l, umn_listing head_before_d25 shipped_ignore StripNone d25_world d25_enum = Ok l /\
            map (fun oe => (fst oe, e_selector (snd oe))) l =
            [(None, lit "/d/fred"%string); (Some (lit "a.txt"%string), lit "/d/a.txt"%string)].
Proof. exact C07Facts.cap_hidden_relisted_refuted. Qed.
Print Assumptions C07_cap_hidden_relisted_refuted.

(* the pinned code reads link files in enumeration order before it sorts *)
Theorem C07_linkorder_refuted :
  exists w e1 e2, Permutation e1 e2 /\ NoDup e1 /\
    umn_listing pinned shipped_ignore StripNone w e1 <> umn_listing pinned shipped_ignore StripNone w e2.
Proof. exact C07Facts.umn_linkorder_refuted. Qed.
Print Assumptions C07_linkorder_refuted.

(* entries kept out of listings stay retrievable by exact selector *)
Theorem C07_hidden_retrievable :
  forall alts w n, ignored alts w n = true \/ is_dot n = true ->
    w_stat w n = Some KFile -> is_secure (child_sel w n) = true ->
    child_entry w n = Ok (w_info w n).
Proof. exact C07Facts.hidden_retrievable. Qed.
Print Assumptions C07_hidden_retrievable.

(* the ignore pattern of the shipped configuration, as ConfigParser reads it from the conf file of the
   tree under test (Gen/Ignore.v), hides a witness of every documented alternative and none of a few
   plain names *)
Theorem C07_shipped_pattern_hides_documented :
  forallb (fun a => re_search shipped_ignore (alt_witness a)) documented_ignore = true /\
  forallb (fun n => negb (re_search shipped_ignore (lit "/d/"%string ++ n)))
          [lit "a.txt"%string; lit "README"%string; lit "forward"%string; lit "veronica"%string;
           lit "keyboards"%string; lit "libs"%string; lit "x~y"%string] = true.
Proof. exact (conj C07Facts.shipped_hides_documented C07Facts.shipped_keeps_plain_names). Qed.
Print Assumptions C07_shipped_pattern_hides_documented.

(* non-vacuity: concrete directories with a dot file, ignored files, a link file *)
Example C07_example_umn :
  exists l, umn_listing repaired shipped_ignore StripNone ex_world ex_enum = Ok l /\
            dir_names l = [lit "b.txt"%string; lit "a.txt"%string].
Proof. exact C07Facts.ex_umn_listing. Qed.
Example C07_example_dir :
  exists l, dir_listing repaired shipped_ignore ex_world ex_enum = Ok l /\
            map fst l = [lit ".names"%string; lit "a.txt"%string; lit "b.txt"%string].
Proof. exact C07Facts.ex_dir_listing. Qed.
