(* C13 — generated HTML, WML and Gopher+ blocks cannot be subverted by data.
   Property theorems only.  Model: Model/RenderUrl.v (page builders with their
   data slots), Model/ClientView.v (tokenizer, skeleton), Model/Wml.v (text to
   WML), Lib/HtmlEsc.v.  Proofs: Proofs/TokFacts.v (template theorem),
   Proofs/C13Facts.v. *)
From Coq Require Import String ZArith.
From PG Require Import Lib.Str Lib.Crlf Lib.CrlfFacts Lib.HtmlEsc Model.Entry Model.Copy Model.Wml Model.GopherPlus Model.RenderUrl
     Model.ClientView Proofs.TokFacts Proofs.C15Facts Proofs.C13Facts.
Local Open Scope N_scope.

(* html.escape output contains no angle bracket and no quotation mark of either kind, and every
   ampersand in it starts one of the five entities *)
Theorem escape_safe : forall s,
  mem_N LT (escape true s) = false /\ mem_N GT (escape true s) = false /\
  mem_N DQ (escape true s) = false /\ mem_N SQ (escape true s) = false /\
  amps_ok (escape true s) = true.
Proof. exact C13Facts.escape_safe. Qed.
Print Assumptions escape_safe.

(* escaped text leaves the tokenizer in character data and produces no tag *)
Theorem tok_stable_text : forall s acc,
  run (SText acc) (escape true s) = (SText (rev (escape true s) ++ acc), []).
Proof. exact C13Facts.tok_stable_text. Qed.
Print Assumptions tok_stable_text.

(* inside a double-quoted attribute value, text without the quote (escaped text in particular) stays inside *)
Theorem tok_stable_attr : forall d nm attrs an v, mem_N DQ d = false ->
  run (SValDq nm attrs an v) d = (SValDq nm attrs an (rev d ++ v), []).
Proof. exact C13Facts.tok_stable_attr_gen. Qed.
Print Assumptions tok_stable_attr.
Theorem tok_stable_attr_escape : forall s nm attrs an v,
  run (SValDq nm attrs an v) (escape true s) = (SValDq nm attrs an (rev (escape true s) ++ v), []).
Proof. exact C13Facts.tok_stable_attr. Qed.
Print Assumptions tok_stable_attr_escape.

(* the general statement behind every builder below: same constant markup, inert data in
   slots that lie in character data or double-quoted attribute values => same skeleton *)
Theorem C13_template : forall ps1 ps2,
  same_shape ps1 ps2 -> data_inert ps1 = true -> data_inert ps2 = true ->
  slots_ok (SText []) ps1 = true ->
  skeleton (render ps1) = skeleton (render ps2).
Proof. exact TokFacts.template_skeleton. Qed.
Print Assumptions C13_template.

(* HTTP directory row: whatever URL, name, selector and MIME subtype, the skeleton is that of
   its kind of row (information line, search form, link) *)
Theorem C13_skeleton_http_row : forall icons e1 e2 u1 u2,
  icons_ok icons = true ->
  type_is e1 T_INFO = type_is e2 T_INFO -> type_is e1 T_SEARCH = type_is e2 T_SEARCH ->
  skeleton (http_row icons e1 u1) = skeleton (http_row icons e2 u2).
Proof. exact C13Facts.skeleton_http_row. Qed.
Print Assumptions C13_skeleton_http_row.

(* the same through renderobjinfo: all selectors (URL: forms included), hosts, ports, names *)
Theorem C13_skeleton_http_renderobjinfo : forall icons sn dp e1 e2 r1 r2,
  icons_ok icons = true ->
  type_is e1 T_INFO = type_is e2 T_INFO -> type_is e1 T_SEARCH = type_is e2 T_SEARCH ->
  http_renderobjinfo icons sn dp e1 = Some r1 -> http_renderobjinfo icons sn dp e2 = Some r2 ->
  skeleton r1 = skeleton r2.
Proof. exact C13Facts.skeleton_http_renderobjinfo. Qed.
Print Assumptions C13_skeleton_http_renderobjinfo.

(* HTTP directory start: the directory's name (twice on the page), for every page topper that is complete markup *)
Theorem C13_skeleton_http_dirstart : forall topper d1 d2,
  topper_closed topper ->
  skeleton (http_dirstart_with topper d1) = skeleton (http_dirstart_with topper d2).
Proof. exact C13Facts.skeleton_http_dirstart. Qed.
Print Assumptions C13_skeleton_http_dirstart.

(* HTTP directory end: the gopher:// URL of the directory *)
Theorem C13_skeleton_http_dirend : forall sn sp d1 d2 p1 p2,
  inert sn = true ->
  url_scheme_match (e_selector d1) = false -> url_scheme_match (e_selector d2) = false ->
  e_host d1 = None -> e_host d2 = None ->
  http_dirend sn sp d1 = Some p1 -> http_dirend sn sp d2 = Some p2 ->
  skeleton p1 = skeleton p2.
Proof. exact C13Facts.skeleton_http_dirend. Qed.
Print Assumptions C13_skeleton_http_dirend.

Theorem C13_skeleton_http_404 : forall m1 m2, skeleton (http_404_page m1) = skeleton (http_404_page m2).
Proof. exact C13Facts.skeleton_http_404. Qed.
Print Assumptions C13_skeleton_http_404.

(* WAP row, at any value of the accesskey / postfield counters and any waptop *)
Theorem C13_skeleton_wap_row : forall waptop st e1 e2 u1 u2,
  type_is e1 T_INFO = type_is e2 T_INFO -> type_is e1 T_SEARCH = type_is e2 T_SEARCH ->
  skeleton (fst (wap_row waptop st e1 u1)) = skeleton (fst (wap_row waptop st e2 u2)).
Proof. exact C13Facts.skeleton_wap_row. Qed.
Print Assumptions C13_skeleton_wap_row.

Theorem C13_skeleton_wap_dirstart : forall d1 d2, skeleton (wap_dirstart d1) = skeleton (wap_dirstart d2).
Proof. exact C13Facts.skeleton_wap_dirstart. Qed.
Print Assumptions C13_skeleton_wap_dirstart.

(* WAP deck (text-to-WML): the skeleton depends only on where the empty lines are *)
Theorem C13_skeleton_wap_deck : forall t1 t2,
  map is_nil (wml_source_lines t1) = map is_nil (wml_source_lines t2) ->
  skeleton (to_wml t1) = skeleton (to_wml t2).
Proof. exact C13Facts.skeleton_wap_deck. Qed.
Print Assumptions C13_skeleton_wap_deck.

Theorem C13_skeleton_wap_404 : forall m1 m2, skeleton (wap_404_page m1) = skeleton (wap_404_page m2).
Proof. exact C13Facts.skeleton_wap_404. Qed.
Print Assumptions C13_skeleton_wap_404.

(* URL redirect page: the URL appears in four places *)
Theorem C13_skeleton_url_page : forall s1 s2, skeleton (url_page s1) = skeleton (url_page s2).
Proof. exact C13Facts.skeleton_url_page. Qed.
Print Assumptions C13_skeleton_url_page.

(* the pinned HTTP and WAP renderers copied the URL into HREF="..." unescaped (fixed in /repo 7800387) *)
Theorem C13_url_href_refuted :
  exists e1 e2 r1 r2 w1 w2,
    type_is e1 T_INFO = type_is e2 T_INFO /\ type_is e1 T_SEARCH = type_is e2 T_SEARCH /\
    http_renderobjinfo_pinned [] (lit "gopher.example") 70%Z e1 = Some r1 /\
    http_renderobjinfo_pinned [] (lit "gopher.example") 70%Z e2 = Some r2 /\
    skeleton r1 <> skeleton r2 /\
    wap_renderobjinfo_gen false (lit "/wap") (lit "gopher.example") 70%Z WAP0 e1 = Some w1 /\
    wap_renderobjinfo_gen false (lit "/wap") (lit "gopher.example") 70%Z WAP0 e2 = Some w2 /\
    skeleton (fst w1) <> skeleton (fst w2).
Proof. exact C13Facts.url_href_refuted. Qed.
Print Assumptions C13_url_href_refuted.

(* HTTP header lines: constants for not-found replies, whatever the message ... *)
Theorem C13_headers_404 : forall msg,
  http_split 16 (http_404 msg) = Some (HTTP_404_HEAD_LINES, http_404_page msg) /\
  http_split 16 (wap_404 msg) = Some (WAP_404_HEAD_LINES, wap_404_page msg).
Proof. exact C13Facts.headers_404. Qed.
Print Assumptions C13_headers_404.

(* ... and for successful replies a constant, the formatted time, or the (table) MIME type of the entry:
   no other field of the entry reaches them *)
Theorem C13_headers : forall lastmod e l,
  In l (http_ok_head http_adjust lastmod e) ->
  l = lit "HTTP/1.0 200 OK" \/
  (exists t, lastmod = Some t /\ l = lit "Last-Modified: " ++ t) \/
  l = lit "Content-Type: text/plain" \/ l = lit "Content-Type: text/html" \/
  (exists m, e_mimetype e = Some m /\ l = lit "Content-Type: " ++ m).
Proof. exact C13Facts.headers_ok_lines. Qed.
Print Assumptions C13_headers.
Theorem C13_headers_slots : forall adjust lastmod e1 e2,
  e_mimetype e1 = e_mimetype e2 -> http_ok_head adjust lastmod e1 = http_ok_head adjust lastmod e2.
Proof. exact C13Facts.headers_ok_slots. Qed.
Print Assumptions C13_headers_slots.

(* Gopher+ (block builder: Model/GopherPlus.v): every line of a +BLOCK body begins with a space,
   contains no line break that splitlines recognises, and is not read as a block header ... *)
Theorem C13_gplus : forall keep name v l,
  In l (tl (GopherPlus.ea_block_lines keep name v)) ->
  exists x, l = GopherPlus.SP :: x /\ no_break x /\ no_lf l /\ GopherPlus.parse_header l = None.
Proof. exact C15Facts.gplus_lines_never_headers. Qed.
Print Assumptions C13_gplus.

(* ... and a reader of CRLF lines gets exactly the header line and those body lines *)
Theorem C13_gplus_reads : forall keep name v,
  no_lf name ->
  split_crlf (GopherPlus.ea_block keep name v) = (GopherPlus.ea_block_lines keep name v, []) /\
  Forall (fun l => exists x, l = GopherPlus.SP :: x /\ no_break x /\ GopherPlus.parse_header l = None)
         (tl (GopherPlus.ea_block_lines keep name v)).
Proof. exact C13Facts.gplus_block_reads. Qed.
Print Assumptions C13_gplus_reads.

(* non-vacuity: a hostile name, URL and subtype in a row; the shipped kind of page topper is closed;
   a block value full of fake headers *)
Example C13_example :
  let e := mkEntry (lit "URL:http://x/""><script>") (Some (lit "h")) (Some (lit "</TT><H1>&""x"))
                   None None (Some (lit "a/<b>")) None None None None None None 0%Z false false [] in
  (exists r, http_renderobjinfo [(lit "h", lit "text.gif")] (lit "gopher.example") 70%Z e = Some r /\
             skeleton r = [EStart (lit "tr") []; EStart (lit "td") [];
                           EStart (lit "img") [lit "alt"; lit "src"; lit "width"; lit "height"; lit "border"];
                           EEnd (lit "td"); EStart (lit "td") []; EStart (lit "a") [lit "href"];
                           EStart (lit "tt") []; EEnd (lit "tt"); EEnd (lit "a"); EEnd (lit "td");
                           EStart (lit "td") []; EStart (lit "font") [lit "size"]; EEnd (lit "font");
                           EEnd (lit "td"); EEnd (lit "tr")]) /\
  icons_ok [(lit "h", lit "text.gif")] = true /\
  topper_closed (lit "Welcome! <A HREF=""gopher://gopher.example:70/1"">try clicking here</A><HR>") /\
  GopherPlus.ea_block_lines true (lit "ABSTRACT") (lit "A" ++ [10] ++ lit "+ADMIN:" ++ [11] ++ lit "+X:" ++ [10])
    = [lit "+ABSTRACT:"; lit " A"; lit " +ADMIN:"; lit " +X:"; lit " "].
Proof. vm_compute. repeat split; try reflexivity. eexists; split; reflexivity. Qed.
