#!/bin/sh
# Serialised build of the Coq development (same lock as harness/common.py).
# usage: ./coqbuild.sh [make targets...]     e.g. ./coqbuild.sh Props/C07.vo
cd "$(dirname "$0")"
mkdir -p build coq/Gen
exec flock build/.build.lock sh -c '
  python3 translate/gen.py "${VERIF_REPO:-/repo}" coq/Gen build/gen_status.json || exit 2
  cd coq
  if [ ! -f Makefile ] || [ _CoqProject -nt Makefile ]; then coq_makefile -f _CoqProject -o Makefile || exit 2; fi
  timeout 1700 make -k -j8 COQC="timeout 600 coqc" "$@" 2>&1 | tail -60
' sh "$@"
